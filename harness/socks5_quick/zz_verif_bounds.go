package socks5

const (
	s5MaxStream     = 14
	s5MaxAuthStream = 16
	s5MaxUsers      = 1
)
