package udp

import (
	"github.com/postalsys/muti-metroo/internal/crypto"
	"github.com/postalsys/muti-metroo/internal/protocol"
)

// C03 (UDP exit responder): performKeyExchange installs the key the ingress derives.
func harnessC03UDPResponder() {
	h := &Handler{}
	assoc := &Association{}
	ipriv, ipub, _ := crypto.GenerateEphemeralKeypair()
	open := &protocol.UDPOpen{RequestID: verif_nondet_u64(), EphemeralPubKey: ipub}
	rpub, err := h.performKeyExchange(assoc, open, ipub, nil)
	verif_reach("C03/udp-responder")
	verif_assert(err == nil, "C03/udp-responder-refused-honest-key")
	rk := assoc.GetSessionKey()
	verif_assert(rk != nil, "C03/udp-no-session-key-installed")
	s, err := crypto.ComputeECDH(ipriv, rpub)
	verif_assert(err == nil, "C03/udp-ack-key-refused")
	verif_assert(crypto.DeriveSessionKey(s, open.RequestID, ipub, rpub, true).Key() == rk.Key(), "C03/udp-exit-key-differs-from-ingress-key")
}
