package udp

import (
	"net"

	"github.com/postalsys/muti-metroo/internal/crypto"
	"github.com/postalsys/muti-metroo/internal/protocol"
)

// C03 (UDP exit responder): performKeyExchange installs the key the ingress derives.
func harnessC03UDPResponder() {
	h := &Handler{}
	assoc := &Association{}
	ipriv, ipub, _ := crypto.GenerateEphemeralKeypair()
	open := &protocol.UDPOpen{RequestID: verif_nondet_u64(), EphemeralPubKey: ipub}
	rpub, err := h.performKeyExchange(assoc, open, ipub, nil)
	verif_reach("C03/udp-responder")
	verif_assert(err == nil, "C03/udp-responder-refused-honest-key")
	rk := assoc.GetSessionKey()
	verif_assert(rk != nil, "C03/udp-no-session-key-installed")
	s, err := crypto.ComputeECDH(ipriv, rpub)
	verif_assert(err == nil, "C03/udp-ack-key-refused")
	verif_assert(crypto.DeriveSessionKey(s, open.RequestID, ipub, rpub, true).Key() == rk.Key(), "C03/udp-exit-key-differs-from-ingress-key")
}

// an all-zero or low-order remote key is refused: no session key on the association
func harnessC03UDPDegenerate() {
	h := &Handler{writer: &c04Writer{}}
	assoc := &Association{}
	var k [crypto.KeySize]byte
	k[0], k[31] = verif_nondet_u8(), verif_nondet_u8()
	open := &protocol.UDPOpen{RequestID: verif_nondet_u64(), EphemeralPubKey: k}
	_, err := h.performKeyExchange(assoc, open, k, &net.UDPConn{})
	verif_reach("C03/udp-degenerate")
	if err != nil {
		verif_reach("C03/udp-degenerate-refused")
		verif_assert(assoc.GetSessionKey() == nil, "C03/udp-key-installed-after-refused-key-agreement")
	} else {
		verif_assert(assoc.GetSessionKey() != nil, "C03/udp-no-session-key-installed")
	}
	if k == ([crypto.KeySize]byte{}) {
		verif_assert(err != nil, "C03/udp-accepted-all-zero-remote-key")
	}
}
