package udp

import (
	"context"
	"errors"
	"log/slog"
	"net"

	"github.com/postalsys/muti-metroo/internal/crypto"
	"github.com/postalsys/muti-metroo/internal/identity"
	"github.com/postalsys/muti-metroo/internal/protocol"
)

// C04 (UDP exit return path): a datagram read from the destination leaves the
// exit sealed, also when the association is closed at any moment in between.

type c04Writer struct{ dgs []*protocol.UDPDatagram }

func (w *c04Writer) WriteUDPDatagram(peerID identity.AgentID, streamID uint64, d *protocol.UDPDatagram) error {
	w.dgs = append(w.dgs, d)
	return nil
}
func (w *c04Writer) WriteUDPClose(identity.AgentID, uint64, uint8) error                  { return nil }
func (w *c04Writer) WriteUDPOpenAck(identity.AgentID, uint64, *protocol.UDPOpenAck) error { return nil }
func (w *c04Writer) WriteUDPOpenErr(identity.AgentID, uint64, *protocol.UDPOpenErr) error { return nil }

var (
	c04Payload []byte
	c04Reads   int
	c04Closed  chan struct{}
)

// replacements for the concrete socket (see props/C04.json)
func c04ReadFromUDP(c *net.UDPConn, b []byte) (int, *net.UDPAddr, error) {
	if c04Reads > 0 {
		<-c04Closed
		return 0, nil, errors.New("use of closed network connection")
	}
	c04Reads++
	n := copy(b, c04Payload)
	return n, &net.UDPAddr{IP: net.IP{1, 2, 3, 4}, Port: 53}, nil
}

// (SetReadDeadline and Close are methods of the embedded net.conn: engine stubs, they succeed)

func harnessC04UDPExitReturn() {
	w := &c04Writer{}
	h := &Handler{associations: map[uint64]*Association{}, byRequestID: map[uint64]*Association{}, config: Config{MaxDatagramSize: 8}, writer: w, logger: slog.Default(), ctx: context.Background()}
	assoc := NewAssociation(5, 7, identity.AgentID{2})
	var secret, ip, rp [crypto.KeySize]byte
	secret[0] = 1
	assoc.SetSessionKey(crypto.DeriveSessionKey(secret, 7, ip, rp, false))
	assoc.UDPConn = &net.UDPConn{}
	c04Payload = verif_nondet_bytes(2)
	c04Reads = 0
	c04Closed = make(chan struct{})
	h.wg.Add(1)
	go h.readLoop(assoc)
	// idle timeout, UDP_CLOSE or loss of the peer closes the association at an arbitrary moment
	assoc.Close()
	close(c04Closed)
	verif_drain()
	verif_reach("C04/udp-exit-return")
	for _, d := range w.dgs {
		verif_reach("C04/udp-exit-return-datagram")
		verif_assert(verif_taint_free(d.Data, c04Payload), "C04/udp-exit-return-carries-application-bytes-in-clear")
		verif_assert(len(d.Data) == len(c04Payload)+crypto.EncryptionOverhead, "C04/udp-exit-return-not-sealed")
	}
}
