package config

const (
	c37MinLen = 5
	c37MaxLen = 5
)
