package exit

import (
	"context"
	"errors"
	"net"

	"github.com/postalsys/muti-metroo/internal/crypto"
	"github.com/postalsys/muti-metroo/internal/identity"
)

// C17 (exit side): the connection table and counter of the exit handler return
// to empty when the tunnel ends -- also when it never came into being because
// the open acknowledgement could not be delivered.

type c17Writer struct {
	c19Writer
	failAck bool
}

func (w *c17Writer) WriteStreamOpenAck(peerID identity.AgentID, streamID uint64, requestID uint64, boundIP net.IP, boundPort uint16, k [crypto.KeySize]byte) error {
	if w.failAck {
		return errors.New("peer disconnected")
	}
	return w.c19Writer.WriteStreamOpenAck(peerID, streamID, requestID, boundIP, boundPort, k)
}

func harnessC17ExitLifecycle() {
	_, all, _ := net.ParseCIDR("0.0.0.0/0")
	w := &c17Writer{failAck: verif_nondet_bool()}
	h := NewHandler(HandlerConfig{AllowedRoutes: []*net.IPNet{all}, MaxConnections: 1}, identity.AgentID{1}, w)
	h.Start()
	c19IsIP, c19IP = true, net.IP{10, 0, 0, 1}
	c19DialConn = &c03Conn{}
	c19Acks, c19Errs = 0, 0
	_, ipub, _ := crypto.GenerateEphemeralKeypair()
	peer := identity.AgentID{2}
	h.HandleStreamOpen(context.Background(), 5, verif_nondet_u64(), peer, "x", 80, ipub)
	verif_drain()
	c19DialConn = nil
	verif_reach("C17/exit-lifecycle")
	if w.failAck {
		verif_reach("C17/exit-ack-undeliverable")
		verif_assert(h.GetConnection(5) == nil && h.ConnectionCount() == 0, "C17/exit-record-left-for-a-tunnel-that-never-opened")
		return
	}
	verif_assert(h.GetConnection(5) != nil && h.ConnectionCount() == 1, "C17/exit-open-not-recorded")
	if verif_nondet_bool() {
		h.HandleStreamClose(peer, 5)
	} else {
		h.HandleStreamReset(peer, 5, 1)
	}
	verif_drain()
	verif_assert(h.GetConnection(5) == nil && h.ConnectionCount() == 0, "C17/exit-record-left-after-the-tunnel-ended")
}
