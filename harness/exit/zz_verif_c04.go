package exit

import (
	"io"

	"github.com/postalsys/muti-metroo/internal/crypto"
	"github.com/postalsys/muti-metroo/internal/identity"
	"github.com/postalsys/muti-metroo/internal/protocol"
)

// C04 (exit return path): bytes read from the destination leave the exit sealed.

type c04Conn struct {
	c07Conn
	data []byte
	done bool
}

func (c *c04Conn) Read(p []byte) (int, error) {
	if c.done {
		return 0, io.EOF
	}
	c.done = true
	return copy(p, c.data), nil
}

type c04Writer struct {
	c19Writer
	frames [][]byte
}

func (w *c04Writer) WriteStreamData(peerID identity.AgentID, streamID uint64, data []byte, flags uint8) error {
	w.frames = append(w.frames, data)
	return nil
}

func harnessC04ExitReturn() {
	w := &c04Writer{}
	h := NewHandler(HandlerConfig{}, identity.AgentID{1}, w)
	h.Start()
	var secret, ip, rp [crypto.KeySize]byte
	secret[0] = 1
	sk := crypto.DeriveSessionKey(secret, 7, ip, rp, false)
	p := verif_nondet_bytes(1 + verif_choose(3))
	conn := &c04Conn{data: p}
	ac := &ActiveConnection{StreamID: 5, RemoteID: identity.AgentID{2}, Conn: conn, sessionKey: sk}
	h.connections[5] = ac
	h.connCount.Add(1)
	h.readLoop(ac)
	verif_reach("C04/exit-return")
	verif_assert(len(w.frames) == 2, "C04/exit-return-frames")
	for _, f := range w.frames {
		verif_assert(verif_taint_free(f, p), "C04/exit-return-carries-application-bytes-in-clear")
	}
	if len(w.frames) > 0 {
		verif_assert(len(w.frames[0]) == len(p)+crypto.EncryptionOverhead, "C04/exit-return-not-sealed")
	}
	_ = protocol.FlagFinWrite
}
