package exit

import (
	"context"
	"net"
	"time"

	"github.com/postalsys/muti-metroo/internal/crypto"
	"github.com/postalsys/muti-metroo/internal/identity"
)

// C03 (exit responder): the key the exit installs equals the key the ingress
// derives from the acknowledgement, for every ephemeral key pair and request id.

type c03Conn struct{ block chan struct{} }

func (c *c03Conn) Read(p []byte) (int, error)         { <-c.block; return 0, nil }
func (c *c03Conn) Write(p []byte) (int, error)        { return len(p), nil }
func (c *c03Conn) Close() error                       { return nil }
func (c *c03Conn) LocalAddr() net.Addr                { return &net.TCPAddr{IP: net.IP{127, 0, 0, 1}, Port: 1} }
func (c *c03Conn) RemoteAddr() net.Addr               { return &net.TCPAddr{IP: net.IP{127, 0, 0, 1}, Port: 2} }
func (c *c03Conn) SetDeadline(t time.Time) error      { return nil }
func (c *c03Conn) SetReadDeadline(t time.Time) error  { return nil }
func (c *c03Conn) SetWriteDeadline(t time.Time) error { return nil }

func harnessC03ExitResponder() {
	_, all, _ := net.ParseCIDR("0.0.0.0/0")
	h := NewHandler(HandlerConfig{AllowedRoutes: []*net.IPNet{all}}, identity.AgentID{1}, c19Writer{})
	h.Start()
	c19IsIP, c19IP = true, net.IP{10, 0, 0, 1}
	c19DialConn = &c03Conn{}
	c19Acks, c19Errs = 0, 0
	ipriv, ipub, err := crypto.GenerateEphemeralKeypair()
	verif_assert(err == nil, "C03/setup")
	reqID := verif_nondet_u64()
	h.HandleStreamOpen(context.Background(), 5, reqID, identity.AgentID{2}, "x", 80, ipub)
	verif_drain()
	c19DialConn = nil
	verif_reach("C03/exit-responder")
	verif_assert(c19Acks == 1 && c19Errs == 0, "C03/exit-open-not-acknowledged")
	ac := h.GetConnection(5)
	verif_assert(ac != nil && ac.sessionKey != nil, "C03/exit-no-session-key-installed")
	// what the ingress computes from the acknowledgement
	secret, err := crypto.ComputeECDH(ipriv, c19AckPub)
	verif_assert(err == nil, "C03/exit-ack-key-refused-by-initiator")
	ik := crypto.DeriveSessionKey(secret, reqID, ipub, c19AckPub, true)
	verif_assert(ik.Key() == ac.sessionKey.Key(), "C03/exit-key-differs-from-ingress-key")
}

// a degenerate remote key is refused instead of producing a usable key
func harnessC03ExitDegenerate() {
	_, all, _ := net.ParseCIDR("0.0.0.0/0")
	h := NewHandler(HandlerConfig{AllowedRoutes: []*net.IPNet{all}}, identity.AgentID{1}, c19Writer{})
	h.Start()
	c19IsIP, c19IP = true, net.IP{10, 0, 0, 1}
	c19DialConn = &c03Conn{}
	c19Acks, c19Errs = 0, 0
	// arbitrary remote key: all-zero, or a point whose (uninterpreted) product may be the zero secret
	var k [crypto.KeySize]byte
	k[0], k[31] = verif_nondet_u8(), verif_nondet_u8()
	h.HandleStreamOpen(context.Background(), 5, 9, identity.AgentID{2}, "x", 80, k)
	verif_drain()
	c19DialConn = nil
	verif_reach("C03/exit-degenerate")
	verif_assert(c19Acks+c19Errs == 1, "C03/exit-open-answered-other-than-exactly-once")
	if c19Errs > 0 {
		verif_reach("C03/exit-degenerate-refused")
		verif_assert(c19Acks == 0 && h.GetConnection(5) == nil, "C03/exit-tunnel-kept-after-refused-key-agreement")
	}
	if k == ([crypto.KeySize]byte{}) {
		verif_assert(c19Acks == 0 && h.GetConnection(5) == nil, "C03/exit-accepted-all-zero-remote-key")
		verif_assert(c19Errs == 1, "C03/exit-degenerate-key-not-reported")
	}
}
