package exit

import (
	"context"
	"errors"
	"fmt"
	"net"

	"github.com/postalsys/muti-metroo/internal/crypto"
	"github.com/postalsys/muti-metroo/internal/identity"
)

// C19: exit agents only connect to permitted destinations.
// The request's textual address is abstract: net.ParseIP and the resolver are
// replaced by harness functions that return the symbolic destination (props
// configure the replacements); net.Dialer.DialContext is a recorder.

var (
	c19IsIP     bool
	c19IP       net.IP // the address in the request (IP requests) or the resolver's answer (domains)
	c19Dialed   int
	c19DialAddr string
	c19ErrCode  uint16
	c19Errs     int
	c19DialConn net.Conn // when set, dials succeed with this connection
	c19AckPub   [crypto.KeySize]byte
	c19Acks     int
)

func c19ParseIP(s string) net.IP {
	if c19IsIP {
		return c19IP
	}
	return nil
}

func c19Resolve(r *Resolver, ctx context.Context, domain string) (net.IP, error) {
	return c19IP, nil
}

func c19Dial(d *net.Dialer, ctx context.Context, network, addr string) (net.Conn, error) {
	c19Dialed++
	c19DialAddr = addr
	if c19DialConn != nil {
		return c19DialConn, nil
	}
	return nil, errors.New("harness: dial recorded")
}

type c19Writer struct{}

func (c19Writer) WriteStreamData(peerID identity.AgentID, streamID uint64, data []byte, flags uint8) error {
	return nil
}
func (c19Writer) WriteStreamOpenAck(peerID identity.AgentID, streamID uint64, requestID uint64, boundIP net.IP, boundPort uint16, k [crypto.KeySize]byte) error {
	c19AckPub = k
	c19Acks++
	return nil
}
func (c19Writer) WriteStreamOpenErr(peerID identity.AgentID, streamID uint64, requestID uint64, errorCode uint16, message string) error {
	c19Errs++
	c19ErrCode = errorCode
	return nil
}
func (c19Writer) WriteStreamClose(peerID identity.AgentID, streamID uint64) error { return nil }

func c19Mask(ones int) net.IPMask {
	all := uint32(0xFFFFFFFF) << uint(32-ones)
	if ones == 0 {
		all = 0
	}
	return net.IPMask{byte(all >> 24), byte(all >> 16), byte(all >> 8), byte(all)}
}

type c19Net struct {
	ip   [4]byte
	ones int
}

func c19Network() (*net.IPNet, c19Net) {
	ones := verif_nondet_int()
	verif_assume(ones >= 0 && ones <= 32)
	m := c19Mask(ones)
	var g c19Net
	g.ones = ones
	for i := range g.ip {
		g.ip[i] = verif_nondet_u8() & m[i]
	}
	return &net.IPNet{IP: net.IP{g.ip[0], g.ip[1], g.ip[2], g.ip[3]}, Mask: m}, g
}

func (g c19Net) contains(a [4]byte) bool {
	m := c19Mask(g.ones)
	return a[0]&m[0] == g.ip[0] && a[1]&m[1] == g.ip[1] && a[2]&m[2] == g.ip[2] && a[3]&m[3] == g.ip[3]
}

func c19Name(n int) string {
	b := verif_nondet_bytes(n)
	for i := range b {
		verif_assume(b[i] == 'a' || b[i] == 'A' || b[i] == 'b' || b[i] == '.')
	}
	return string(b)
}

func c19Lower(s string) string {
	b := []byte(s)
	for i := range b {
		c := b[i]
		if c >= 'A' && c <= 'Z' {
			c += 32
		}
		b[i] = c
	}
	return string(b)
}

func c19WildMatches(base, name string) bool {
	lb, ln := c19Lower(base), c19Lower(name)
	if len(ln) < len(lb)+2 {
		return false
	}
	cut := len(ln) - len(lb)
	dot := false
	for i := 0; i < cut-1; i++ {
		dot = dot || ln[i] == '.'
	}
	return ln[cut:] == lb && ln[cut-1] == '.' && !dot
}

func harnessC19Open() {
	// configuration: 0..2 networks, 0..1 domain pattern
	var cfg HandlerConfig
	var nets [2]c19Net
	nn := verif_choose(3)
	for i := 0; i < nn; i++ {
		n, g := c19Network()
		cfg.AllowedRoutes = append(cfg.AllowedRoutes, n)
		nets[i] = g
	}
	hasPat := verif_nondet_bool()
	var pat DomainPattern
	if hasPat {
		if verif_nondet_bool() {
			base := c19Name(1 + verif_choose(2))
			pat = DomainPattern{Pattern: "*." + base, IsWildcard: true, BaseDomain: base}
		} else {
			p := c19Name(2 + verif_choose(2))
			pat = DomainPattern{Pattern: p}
		}
		cfg.AllowedDomains = []DomainPattern{pat}
	}
	h := NewHandler(cfg, identity.AgentID{1}, c19Writer{})
	h.Start()

	// destination
	var a [4]byte
	for i := range a {
		a[i] = verif_nondet_u8()
	}
	v6 := false
	switch verif_choose(3) {
	case 0:
		c19IP = net.IP{a[0], a[1], a[2], a[3]}
	case 1:
		c19IP = net.IP{0, 0, 0, 0, 0, 0, 0, 0, 0, 0, 0xff, 0xff, a[0], a[1], a[2], a[3]}
	case 2:
		ip6 := verif_nondet_bytes(16)
		mapped := true
		for i := 0; i < 10; i++ {
			mapped = mapped && ip6[i] == 0
		}
		mapped = mapped && ip6[10] == 0xff && ip6[11] == 0xff
		verif_assume(!mapped)
		c19IP = net.IP(ip6)
		v6 = true
	}
	c19IsIP = verif_nondet_bool()
	name := "x"
	if !c19IsIP {
		name = c19Name(2 + verif_choose(3))
	}
	port := verif_nondet_u16()
	c19Dialed, c19Errs = 0, 0
	var key [crypto.KeySize]byte
	key[0] = 9
	err := h.HandleStreamOpen(context.Background(), 5, 6, identity.AgentID{2}, name, port, key)
	verif_drain()
	verif_reach("C19/open")
	verif_assert(err == nil, "C19/open-accepted-for-processing")

	// reference predicate
	inNet := false
	for i := 0; i < nn; i++ {
		inNet = inNet || (!v6 && nets[i].contains(a))
	}
	domOK := false
	if !c19IsIP && hasPat {
		if pat.IsWildcard {
			domOK = c19WildMatches(pat.BaseDomain, name)
		} else {
			domOK = c19Lower(pat.Pattern) == c19Lower(name)
		}
	}
	permitted := inNet || domOK
	verif_assert(c19Dialed <= 1, "C19/at-most-one-dial")
	verif_assert(!(c19Dialed > 0) || permitted, "C19/dialled-unpermitted-destination")
	keyFailure := c19Errs == 1 && c19ErrCode == 18 // degenerate ECDH result: refused before dialling
	verif_assert(!permitted || c19Dialed == 1 || keyFailure, "C19/permitted-destination-refused")
	if c19Dialed == 0 {
		verif_assert(c19Errs == 1 && (c19ErrCode == 11 || keyFailure), "C19/refusal-reports-not-allowed")
		verif_assert(permitted || c19ErrCode == 11, "C19/unpermitted-destination-gets-not-allowed")
	} else {
		verif_reach("C19/dialled")
		verif_assert(c19DialAddr == fmt.Sprintf("%s:%d", c19IP.String(), port), "C19/dials-the-resolved-address-and-port")
	}
	if nn == 0 && !hasPat {
		verif_assert(c19Dialed == 0, "C19/nothing-configured-nothing-permitted")
	}
}

func harnessC19Witness() {
	n, _ := c19Network()
	h := NewHandler(HandlerConfig{AllowedRoutes: []*net.IPNet{n}}, identity.AgentID{1}, c19Writer{})
	h.Start()
	c19IsIP, c19IP, c19Dialed = true, net.IP{10, 0, 0, 1}, 0
	var key [crypto.KeySize]byte
	key[0] = 9
	h.HandleStreamOpen(context.Background(), 5, 6, identity.AgentID{2}, "x", 80, key)
	verif_drain()
	if c19Dialed == 1 {
		verif_assert(false, "witness")
	}
}
