package exit

import (
	"io"
	"net"
	"time"

	"github.com/postalsys/muti-metroo/internal/crypto"
	"github.com/postalsys/muti-metroo/internal/identity"
	"github.com/postalsys/muti-metroo/internal/protocol"
)

// C07 (exit return path): what readLoop hands to the stream writer always fits
// one frame, for every amount the destination socket returns.

type c07Conn struct {
	chunks []int // sizes returned by successive Read calls, then EOF
	pos    int
	bufLen int
}

func (c *c07Conn) Read(p []byte) (int, error) {
	c.bufLen = len(p)
	if c.pos >= len(c.chunks) {
		return 0, io.EOF
	}
	n := c.chunks[c.pos]
	if n > len(p) {
		n = len(p)
	}
	c.pos++
	for i := 0; i < n; i += 4093 {
		p[i] = byte(i)
	}
	return n, nil
}
func (c *c07Conn) Write(p []byte) (int, error)        { return len(p), nil }
func (c *c07Conn) Close() error                       { return nil }
func (c *c07Conn) LocalAddr() net.Addr                { return &net.TCPAddr{} }
func (c *c07Conn) RemoteAddr() net.Addr               { return &net.TCPAddr{} }
func (c *c07Conn) SetDeadline(t time.Time) error      { return nil }
func (c *c07Conn) SetReadDeadline(t time.Time) error  { return nil }
func (c *c07Conn) SetWriteDeadline(t time.Time) error { return nil }

type c07Writer struct {
	c19Writer
	sizes []int
	fin   int
}

func (w *c07Writer) WriteStreamData(peerID identity.AgentID, streamID uint64, data []byte, flags uint8) error {
	w.sizes = append(w.sizes, len(data))
	if flags&protocol.FlagFinWrite != 0 {
		w.fin++
	}
	return nil
}

func harnessC07ExitReadLoop() {
	w := &c07Writer{}
	h := NewHandler(HandlerConfig{}, identity.AgentID{1}, w)
	h.Start()
	var secret, ip, rp [crypto.KeySize]byte
	secret[0] = 1
	sk := crypto.DeriveSessionKey(secret, 7, ip, rp, false)
	// the socket returns, in turn, one byte, a full buffer, one byte less, and "as much as fits"
	conn := &c07Conn{chunks: []int{1, 1 << 20, protocol.MaxPayloadSize - crypto.EncryptionOverhead - 1, 1 << 20}}
	ac := &ActiveConnection{StreamID: 5, RemoteID: identity.AgentID{2}, Conn: conn, sessionKey: sk}
	h.connections[5] = ac
	h.connCount.Add(1)
	h.readLoop(ac)
	verif_reach("C07/exit-read-loop")
	verif_assert(conn.bufLen+crypto.EncryptionOverhead <= protocol.MaxPayloadSize, "C07/read-buffer-plus-overhead-exceeds-frame")
	verif_assert(len(w.sizes) == 5 && w.fin == 1, "C07/exit-forwarded-chunks")
	total := 0
	for _, s := range w.sizes {
		verif_assert(s <= protocol.MaxPayloadSize, "C07/exit-chunk-exceeds-payload-limit")
		if s > 0 {
			total += s - crypto.EncryptionOverhead
		}
	}
	verif_assert(total == 1+conn.bufLen+(protocol.MaxPayloadSize-crypto.EncryptionOverhead-1)+conn.bufLen, "C07/exit-bytes-forwarded-differ-from-bytes-read")
	verif_assert(h.ConnectionCount() == 0, "C17/exit-connection-count-not-released")
}
