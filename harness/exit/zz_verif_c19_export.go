package exit

import "net"

// IsAllowedForVerif exposes the allow-list predicate to the agent-package harness.
func (h *Handler) IsAllowedForVerif(ip net.IP) bool { return h.isAllowed(ip) }
