package exit

import (
	"context"
	"net"
	"time"

	"github.com/postalsys/muti-metroo/internal/crypto"
	"github.com/postalsys/muti-metroo/internal/identity"
)

// C16 (exit side): two ingress agents share this exit. Each is a different
// neighbour, so each draws its stream ids from its own connection's allocator
// (both start at 1): the two tunnels may carry the same numeric stream id.

type c16Conn struct {
	block   chan struct{}
	written []byte
	closed  bool
}

func (c *c16Conn) Read(p []byte) (int, error) { <-c.block; return 0, nil }
func (c *c16Conn) Write(p []byte) (int, error) {
	c.written = append(c.written, p...)
	return len(p), nil
}
func (c *c16Conn) Close() error                       { c.closed = true; return nil }
func (c *c16Conn) LocalAddr() net.Addr                { return &net.TCPAddr{IP: net.IP{127, 0, 0, 1}, Port: 1} }
func (c *c16Conn) RemoteAddr() net.Addr               { return &net.TCPAddr{IP: net.IP{127, 0, 0, 1}, Port: 2} }
func (c *c16Conn) SetDeadline(t time.Time) error      { return nil }
func (c *c16Conn) SetReadDeadline(t time.Time) error  { return nil }
func (c *c16Conn) SetWriteDeadline(t time.Time) error { return nil }

func c16Open(h *Handler, peer identity.AgentID, sid, req uint64, dst *c16Conn) *crypto.SessionKey {
	c19DialConn = dst
	ipriv, ipub, _ := crypto.GenerateEphemeralKeypair()
	h.HandleStreamOpen(context.Background(), sid, req, peer, "x", 80, ipub)
	verif_drain()
	c19DialConn = nil
	secret, err := crypto.ComputeECDH(ipriv, c19AckPub)
	verif_assert(err == nil, "C16/exit/setup")
	return crypto.DeriveSessionKey(secret, req, ipub, c19AckPub, true)
}

func harnessC16ExitTwoIngress()       { c16ExitTwoIngress(false, "C16/exit") }
func harnessC16ExitTwoIngressSameID() { c16ExitTwoIngress(true, "C16/exit-same-id") }

func c16ExitTwoIngress(same bool, tag string) {
	_, all, _ := net.ParseCIDR("0.0.0.0/0")
	h := NewHandler(HandlerConfig{AllowedRoutes: []*net.IPNet{all}}, identity.AgentID{1}, c19Writer{})
	h.Start()
	c19IsIP, c19IP = true, net.IP{10, 0, 0, 1}
	c19Acks, c19Errs = 0, 0
	p1, p2 := identity.AgentID{2}, identity.AgentID{3}
	s1, s2 := verif_nondet_u64(), verif_nondet_u64()
	verif_assume((s1 == s2) == same)
	d1, d2 := &c16Conn{}, &c16Conn{}
	k1 := c16Open(h, p1, s1, 11, d1)
	k2 := c16Open(h, p2, s2, 12, d2)
	_ = k2
	verif_reach(tag + "/two-ingress")
	verif_assert(c19Acks == 2 && c19Errs == 0, tag+"/open-of-a-second-ingress-not-acknowledged")
	if c19Acks != 2 {
		return
	}
	verif_assert(h.ConnectionCount() == 2, tag+"/two-tunnels-not-both-recorded")
	// ingress 1 sends one byte
	b := verif_nondet_u8()
	ct, err := k1.Encrypt([]byte{b})
	verif_assert(err == nil, tag+"/setup")
	h.HandleStreamData(p1, s1, ct, 0)
	verif_drain()
	verif_assert(len(d1.written) == 1 && d1.written[0] == b, tag+"/bytes-of-ingress-1-do-not-reach-its-destination")
	verif_assert(len(d2.written) == 0, tag+"/bytes-of-ingress-1-reach-the-destination-of-ingress-2")
	verif_assert(!d2.closed, tag+"/data-of-ingress-1-closes-the-tunnel-of-ingress-2")
	// ingress 1 closes its tunnel
	h.HandleStreamClose(p1, s1)
	verif_drain()
	verif_assert(d1.closed, tag+"/close-of-ingress-1-does-not-close-its-own-destination")
	verif_assert(!d2.closed, tag+"/close-of-ingress-1-closes-the-tunnel-of-ingress-2")
}

// C17 next to it: after both ingress agents have closed their tunnels the exit holds no
// connection record and no counter for them
func c17ExitTwoIngress(same bool, tag string) {
	_, all, _ := net.ParseCIDR("0.0.0.0/0")
	h := NewHandler(HandlerConfig{AllowedRoutes: []*net.IPNet{all}}, identity.AgentID{1}, c19Writer{})
	h.Start()
	c19IsIP, c19IP = true, net.IP{10, 0, 0, 1}
	c19Acks, c19Errs = 0, 0
	p1, p2 := identity.AgentID{2}, identity.AgentID{3}
	s1, s2 := verif_nondet_u64(), verif_nondet_u64()
	verif_assume((s1 == s2) == same)
	d1, d2 := &c16Conn{}, &c16Conn{}
	c16Open(h, p1, s1, 11, d1)
	c16Open(h, p2, s2, 12, d2)
	verif_reach(tag + "/two-ingress")
	if c19Acks != 2 {
		return
	}
	h.HandleStreamClose(p1, s1)
	verif_drain()
	h.HandleStreamClose(p2, s2)
	verif_drain()
	verif_assert(h.ConnectionCount() == 0, tag+"/connection-counter-left-after-both-tunnels-closed")
	verif_assert(d1.closed && d2.closed, tag+"/destination-connection-left-open-after-both-tunnels-closed")
}

func harnessC17ExitTwoIngress()       { c17ExitTwoIngress(false, "C17/exit") }
func harnessC17ExitTwoIngressSameID() { c17ExitTwoIngress(true, "C17/exit-same-id") }
