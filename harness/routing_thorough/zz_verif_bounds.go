package routing

// number of table operations in the CIDR bounded history (thorough tier)
const c08Ops = 3
