package routing

// number of table operations in the CIDR bounded history (3 operations did not finish within 50 minutes)
const c08Ops = 2

// announcements for one key in the order harnesses
const cOrdAdds = 4
