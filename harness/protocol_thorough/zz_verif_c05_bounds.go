package protocol

// extra bytes beyond the minimum message length explored by the totality harnesses (thorough tier)
const (
	c05XFrame     = 6
	c05XPeerHello = 8
	c05XOpen      = 20
	c05XAck       = 20
	c05XErr       = 6
	c05XAdv       = 12
	c05XWd        = 24
	c05XEnc       = 36
	c05XNodeInfo  = 6
	c05XNIA       = 6
	c05XCtl       = 20
	c05XDgram     = 20
	c05XIcmpOpen  = 20
	c05XIcmpEcho  = 12
	c05XSleep     = 33
	c05XQueued    = 10
)
