package sleep

import (
	"time"

	"github.com/postalsys/muti-metroo/internal/config"
)

// C34 (sleep state part): a crash at any point of a state save leaves a file
// from which the next start recovers the state before or after the save.
func harnessC34SleepState() {
	cfg := config.SleepConfig{Enabled: true, PollInterval: time.Hour, PollDuration: time.Second, PersistState: true, MaxQueuedMessages: 4}
	verif_fs_mkdir("/vfs/data")
	m := NewManager(cfg, "/vfs/data", nil)
	first := verif_nondet_bool()
	if !first {
		// an earlier complete save exists
		verif_assert(m.Sleep() == nil, "C34/setup")
	}
	before := m.GetState()
	k := verif_choose(5)
	func() {
		defer func() { recover() }()
		verif_fs_crash_after(k)
		if first {
			m.Sleep()
		} else {
			m.Wake()
		}
	}()
	verif_fs_crash_after(-1)
	after := StateSleeping
	if !first {
		after = StateAwake
	}
	m2 := NewManager(cfg, "/vfs/data", nil)
	err := m2.LoadState()
	verif_reach("C34/sleep-restart")
	if err != nil {
		// no readable state: only acceptable if no save had ever completed (fresh data dir)
		verif_assert(first && !verif_fs_exists("/vfs/data/sleep_state.json"), "C34/sleep-state-unreadable-after-interrupted-save")
		return
	}
	st := m2.GetState()
	verif_assert(st == before || st == after, "C34/sleep-state-after-restart-is-neither-old-nor-new")
}
