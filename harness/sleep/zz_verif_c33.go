package sleep

import (
	"encoding/binary"
	"time"

	"github.com/postalsys/muti-metroo/internal/identity"
)

// C33: deterministic listening windows.
//
// Two kernels. (a) bit-vector mode: the per-agent offset lies in [0, C-W) for
// every identity (so each window fits inside its cycle). (b) Int mode: window
// selection and the activity test for every instant, epoch, cycle, window and
// tolerance, with windowOffset replaced by an arbitrary value in the range
// established by (a) (the replacement is configured in props/C33.json).

func c33ID() identity.AgentID {
	var id identity.AgentID
	for i := range id {
		id[i] = verif_nondet_u8()
	}
	return id
}

// (a) offset range, determinism
func harnessC33Offset() {
	c := verif_nondet_i64()
	wl := verif_nondet_i64()
	verif_assume(c > 0 && wl >= 0 && wl < c)
	w := NewWindowCalculator(WindowConfig{CycleLength: time.Duration(c), WindowLength: time.Duration(wl), Epoch: time.Unix(0, 1)})
	verif_assert(w.cfg.CycleLength == time.Duration(c) && w.cfg.WindowLength == time.Duration(wl), "C33/config-kept")
	id := c33ID()
	off := w.windowOffset(id)
	verif_reach("C33/offset")
	verif_assert(off >= 0, "C33/offset-nonnegative")
	verif_assert(int64(off)+wl <= c, "C33/window-fits-in-cycle")
	verif_assert(int64(off) < c-wl || (c-wl == 0 && off == 0), "C33/offset-below-max")
	verif_assert(off == w.windowOffset(id), "C33/offset-deterministic")
}

// Constructor: a window not shorter than the cycle is reduced to fit.
func harnessC33Ctor() {
	c := verif_nondet_i64()
	wl := verif_nondet_i64()
	verif_assume(c > 0 && c < (1<<50) && wl >= 0 && wl < (1<<50))
	w := NewWindowCalculator(WindowConfig{CycleLength: time.Duration(c), WindowLength: time.Duration(wl)})
	verif_reach("C33/ctor")
	verif_assert(int64(w.cfg.WindowLength) < c || c < 6, "C33/ctor-window-shorter-than-cycle")
	verif_assert(!w.cfg.Epoch.IsZero(), "C33/ctor-epoch-set")
}

// stub for (b): an arbitrary offset in the range proven by (a); deterministic
// per harness run (one identity is used).
var c33StubOffset time.Duration

func c33StubWindowOffset(w *WindowCalculator, id identity.AgentID) time.Duration {
	return c33StubOffset
}

const c33Lim = int64(1) << 60

// (b) window selection and activity, Int mode
func harnessC33Window() {
	c := verif_nondet_i64()
	wl := verif_nondet_i64()
	tol := verif_nondet_i64()
	ep := verif_nondet_i64()
	now := verif_nondet_i64()
	off := verif_nondet_i64()
	verif_assume(c > 0 && c < (1<<45) && wl >= 0 && wl < c)
	verif_assume(tol >= 0 && tol < (1<<45))
	verif_assume(2*tol <= c-wl) // tolerance zones of neighbouring windows do not overlap
	verif_assume(ep > -c33Lim && ep < c33Lim && now > -c33Lim && now < c33Lim)
	// exactly the range the offset kernel proves for windowOffset
	verif_assume(off >= 0 && (off < c-wl || (c-wl == 0 && off == 0)))
	c33StubOffset = time.Duration(off)
	w := &WindowCalculator{cfg: WindowConfig{CycleLength: time.Duration(c), WindowLength: time.Duration(wl), ClockTolerance: time.Duration(tol), Epoch: time.Unix(0, ep)}}
	var id identity.AgentID
	if verif_native() {
		// native replay runs the real windowOffset: pick the identity whose offset is off
		binary.BigEndian.PutUint64(id[8:], uint64(off))
	}
	t := time.Unix(0, now)
	start, end := w.NextWindow(id, t)
	s, e := start.UnixNano(), end.UnixNano()
	verif_reach("C33/next-window")
	verif_assert(e == s+wl, "C33/window-length")
	// (s - epoch - offset) is a multiple of the cycle
	d := s - ep - off
	k := d / c
	verif_assert(k*c == d, "C33/window-on-cycle-grid")
	verif_assert(now <= e, "C33/next-window-not-ended")
	verif_assert(now > e-c, "C33/next-window-is-earliest")

	info := w.GetWindowInfo(id, t)
	verif_assert(info.Start.UnixNano() == s && info.End.UnixNano() == e, "C33/info-window")
	verif_assert(info.SafeStart.UnixNano() == s-tol && info.SafeEnd.UnixNano() == e+tol, "C33/info-safe-bounds")
	// in-window <=> inside [start_k - tol, end_k + tol] for some k; by the assumptions only
	// the returned window k0 and its predecessor can qualify (end boundary: either answer accepted)
	inStrict := now >= s-tol && now < e+tol
	inIncl := (now >= s-tol && now <= e+tol) || now <= e-c+tol
	act := w.IsInWindow(id, t)
	verif_assert(!inStrict || act, "C33/in-window-implies-active")
	verif_assert(!(now < e-c+tol) || act, "C33/trailing-tolerance-of-previous-window-is-active")
	verif_assert(!act || inIncl, "C33/active-implies-in-window")
	if now < s-tol {
		verif_assert(int64(info.TimeUntil) == s-tol-now, "C33/time-until")
	} else {
		verif_assert(info.TimeUntil == 0, "C33/time-until-zero-when-started")
	}
}

func harnessC33Witness() {
	w := &WindowCalculator{cfg: WindowConfig{CycleLength: 100, WindowLength: 10, Epoch: time.Unix(0, 0)}}
	var id identity.AgentID
	n := verif_nondet_i64()
	verif_assume(n > -c33Lim && n < c33Lim)
	s, _ := w.NextWindow(id, time.Unix(0, n))
	if s.UnixNano() == 300 {
		verif_assert(false, "witness")
	}
}
