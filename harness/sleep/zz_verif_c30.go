package sleep

import (
	"time"

	"github.com/postalsys/muti-metroo/internal/config"
)

// C30: the sleep state machine under every interleaving of sleep and wake
// requests, poll-timer firings and poll completions. The harness is the
// scheduler: it decides which request is issued and which pending timer fires
// next; goroutines started by the manager run until they block.

var (
	c30PollsThisEpoch int // polls started since the last completed wake and not yet ended
	c30Stale          bool
	c30Disconnects    int
)

func allowed(from, to State) bool {
	switch {
	case from == to:
		return true
	case from == StateAwake && to == StateSleeping:
		return true
	case from == StateSleeping && to == StatePolling:
		return true
	case from == StatePolling && to == StateSleeping:
		return true
	case (from == StateSleeping || from == StatePolling) && to == StateAwake:
		return true
	}
	return false
}

func harnessC30Interleavings() {
	cfg := config.SleepConfig{Enabled: true, PollInterval: time.Hour, PollDuration: time.Second, PersistState: true, MaxQueuedMessages: 4}
	m := NewManager(cfg, "/vfs/data", nil)
	verif_fs_mkdir("/vfs/data")
	c30PollsThisEpoch, c30Stale, c30Disconnects = 0, false, 0
	m.SetCallbacks(Callbacks{
		OnPoll: func() error { c30PollsThisEpoch++; return nil },
		OnPollEnd: func() error {
			if c30PollsThisEpoch == 0 {
				c30Stale = true // a poll that started before the last completed wake disconnects
			} else {
				c30PollsThisEpoch--
			}
			c30Disconnects++
			return nil
		},
	})
	prev := m.GetState()
	check := func(tag string) {
		cur := m.GetState()
		verif_assert(allowed(prev, cur), "C30/undocumented-transition")
		prev = cur
		verif_assert(!c30Stale, "C30/stale-poll-acts-after-a-completed-wake")
		// persisted state equals the state after every completed transition
		m2 := NewManager(cfg, "/vfs/data", nil)
		if err := m2.LoadState(); err == nil {
			verif_assert(m2.GetState() == cur, "C30/persisted-state-differs-from-state")
		} else {
			verif_assert(cur == StateAwake, "C30/state-not-persisted")
		}
	}
	for step := 0; step < c30Steps; step++ {
		switch verif_choose(3) {
		case 0:
			was := m.GetState()
			err := m.Sleep()
			if was == StateAwake {
				verif_assert(err == nil, "C30/sleep-refused-while-awake")
			} else {
				verif_assert(err == ErrAlreadySleeping, "C30/sleep-while-asleep-not-refused")
			}
		case 1:
			was := m.GetState()
			err := m.Wake()
			if was == StateAwake {
				verif_assert(err == ErrNotSleeping, "C30/wake-while-awake-not-refused")
			} else {
				verif_assert(err == nil, "C30/wake-refused-while-asleep")
				c30PollsThisEpoch = 0 // a wake completed: earlier polls are stale from now on
			}
		case 2:
			n := verif_timers()
			if n == 0 {
				continue
			}
			verif_fire_timer(verif_choose(n))
		}
		verif_drain()
		check("step")
	}
	verif_reach("C30/interleavings")
}

func harnessC30Witness() {
	cfg := config.SleepConfig{Enabled: true, PollInterval: time.Hour, PollDuration: time.Second, MaxQueuedMessages: 4}
	m := NewManager(cfg, "/vfs/data", nil)
	polled := 0
	m.SetCallbacks(Callbacks{OnPollEnd: func() error { polled++; return nil }})
	m.Sleep()
	verif_fire_timer(0)
	verif_drain()
	verif_fire_timer(0)
	verif_drain()
	if polled == 1 && m.GetState() == StateSleeping {
		verif_assert(false, "witness")
	}
}

// a poll (what the poll timer runs) racing a wake request, every interleaving
// at lock/atomic granularity: once the wake has completed the agent stays awake,
// nothing disconnects afterwards, and AWAKE is what is persisted
func harnessC30PollWakeRace() {
	cfg := config.SleepConfig{Enabled: true, PollInterval: time.Hour, PollDuration: time.Second, PersistState: true, MaxQueuedMessages: 4}
	m := NewManager(cfg, "/vfs/data", nil)
	verif_fs_mkdir("/vfs/data")
	wakeDone := false
	pollsAfterWake, endsAfterWake := 0, 0
	m.SetCallbacks(Callbacks{
		OnPoll: func() error {
			if wakeDone {
				pollsAfterWake++
			}
			return nil
		},
		OnPollEnd: func() error {
			if wakeDone {
				endsAfterWake++
			}
			return nil
		},
	})
	verif_assert(m.Sleep() == nil, "C30/setup")
	go m.Poll()
	err := m.Wake()
	wakeDone = true
	verif_assert(err == nil, "C30/wake-refused-while-asleep")
	verif_drain()
	// the poll duration of a poll that got in first elapses, stale poll timers fire
	for i := 0; i < 4 && verif_timers() > 0; i++ {
		verif_fire_timer(0)
		verif_drain()
	}
	verif_reach("C30/poll-wake-race")
	// (a poll that had already turned POLLING may still run its connect callback after the
	// wake: connecting is what an awake agent does anyway; disconnecting is the harmful act)
	_ = pollsAfterWake
	verif_assert(endsAfterWake == 0, "C30/stale-poll-acts-after-a-completed-wake")
	verif_assert(m.GetState() == StateAwake, "C30/agent-asleep-again-after-a-completed-wake")
	m2 := NewManager(cfg, "/vfs/data", nil)
	if err := m2.LoadState(); err == nil {
		verif_assert(m2.GetState() == StateAwake, "C30/persisted-state-differs-from-state")
	}
}
