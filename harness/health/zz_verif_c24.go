package health

import (
	"net/http"
	"net/url"
)

// C24: bearer-token authentication middleware and endpoint gating.

type c24Writer struct {
	h      http.Header
	status int
	wrote  int
}

func (w *c24Writer) Header() http.Header {
	if w.h == nil {
		w.h = http.Header{}
	}
	return w.h
}
func (w *c24Writer) Write(b []byte) (int, error) {
	if w.status == 0 {
		w.status = 200
	}
	w.wrote += len(b)
	return len(b), nil
}
func (w *c24Writer) WriteHeader(code int) {
	if w.status == 0 {
		w.status = code
	}
}

var (
	c24Query    string
	c24HasQuery bool
)

// replacement for (*url.URL).Query (props): the query string carries an arbitrary token or none
func c24URLQuery(u *url.URL) url.Values {
	if c24HasQuery {
		return url.Values{"token": {c24Query}}
	}
	return url.Values{}
}

type c24Next struct{ reached int }

func (n *c24Next) ServeHTTP(w http.ResponseWriter, r *http.Request) { n.reached++ }

func c24Str(max int) string { return verif_nondet_string(verif_choose(max + 1)) }

func c24Request(path string) (*http.Request, string) {
	r := &http.Request{Method: "GET", URL: &url.URL{Path: path}, Header: http.Header{}}
	tok := ""
	switch verif_choose(4) {
	case 0: // no credentials
		c24HasQuery = false
	case 1: // Authorization: Bearer <t>
		c24HasQuery = false
		tok = c24Str(2)
		r.Header["Authorization"] = []string{"Bearer " + tok}
	case 2: // arbitrary Authorization header (other schemes, short forms), no query token
		c24HasQuery = false
		hdr := verif_nondet_string(7 + verif_choose(2))
		r.Header["Authorization"] = []string{hdr}
		if len(hdr) >= 7 && hdr[:7] == "Bearer " {
			tok = hdr[7:]
		}
	case 3: // ?token=<t>
		c24HasQuery = true
		c24Query = c24Str(2)
		tok = c24Query
	}
	return r, tok
}

var c24Exempt = [...]string{"/health", "/healthz", "/ready", "/", "/logo.png"}

func harnessC24Middleware() {
	s := &Server{cfg: ServerConfig{TokenHash: verif_nondet_string(2)}}
	next := &c24Next{}
	mw := s.requireAuth(next)
	path := verif_nondet_string(verif_choose(c24PathMax + 1))
	r, tok := c24Request(path)
	w := &c24Writer{}
	mw.ServeHTTP(w, r)
	verif_reach("C24/middleware")
	exempt := false
	for _, e := range c24Exempt {
		exempt = exempt || path == e
	}
	if next.reached > 0 {
		verif_reach("C24/passed")
		if !exempt {
			verif_assert(tok != "", "C24/non-exempt-path-served-without-token")
			verif_assert(s.validateToken(tok), "C24/non-exempt-path-served-with-invalid-token")
		}
	} else {
		verif_assert(w.status == http.StatusUnauthorized, "C24/refusal-is-not-401")
		verif_assert(!exempt, "C24/exempt-path-refused")
	}
	verif_assert(next.reached <= 1, "C24/handler-invoked-twice")
	if exempt {
		verif_assert(next.reached == 1, "C24/exempt-path-requires-token")
	}
}

// token cache: a second request is accepted only for a token that verifies, or whose
// SHA-256 equals that of the token accepted before (collision resistance is the caller's assumption)
func harnessC24Cache() {
	s := &Server{cfg: ServerConfig{TokenHash: verif_nondet_string(2)}}
	a, b := c24Str(2), c24Str(2)
	okA := s.validateToken(a)
	cached := s.tokenCacheValid
	okB := s.validateToken(b)
	verif_reach("C24/cache")
	verif_assert(cached == okA, "C24/cache-filled-by-rejected-token")
	if okB && a != b {
		fresh := &Server{cfg: s.cfg}
		verif_assert(fresh.validateToken(b) || okA, "C24/cache-accepts-unverified-token")
	}
}

// endpoint gating: handlers of a disabled group answer 404
type c24Reg struct {
	pattern string
	h       func(http.ResponseWriter, *http.Request)
}

var c24Regs []c24Reg

// replacement for (*http.ServeMux).HandleFunc (props)
func c24HandleFunc(m *http.ServeMux, pattern string, h func(http.ResponseWriter, *http.Request)) {
	c24Regs = append(c24Regs, c24Reg{pattern, h})
}

var c24RemotePatterns = [...]string{"/agents", "/agents/", "/routes/advertise", "/routes/manage", "/forward/manage", "/display-name/manage", "/sleep", "/sleep/status", "/wake"}

func c24Find(p string) func(http.ResponseWriter, *http.Request) {
	var h func(http.ResponseWriter, *http.Request)
	n := 0
	for _, r := range c24Regs {
		if r.pattern == p {
			h = r.h
			n++
		}
	}
	verif_assert(n <= 1, "C24/pattern-registered-twice")
	return h
}

func c24Is404(h func(http.ResponseWriter, *http.Request)) bool {
	w := &c24Writer{}
	h(w, &http.Request{Method: "GET", URL: &url.URL{Path: "/x"}, Header: http.Header{}})
	return w.status == http.StatusNotFound
}

func harnessC24Gating() {
	cfg := ServerConfig{EnableRemoteAPI: verif_nondet_bool(), EnableDashboard: verif_nondet_bool(), EnablePprof: verif_nondet_bool()}
	if verif_nondet_bool() {
		cfg.TokenHash = "h"
	}
	c24Regs = nil
	s := NewServer(cfg, nil)
	verif_reach("C24/gating")
	for _, p := range c24RemotePatterns {
		h := c24Find(p)
		verif_assert(h != nil, "C24/remote-api-pattern-missing")
		if !cfg.EnableRemoteAPI {
			verif_assert(c24Is404(h), "C24/disabled-remote-api-endpoint-active")
		}
	}
	if !cfg.EnableDashboard {
		h := c24Find("/api/")
		verif_assert(h != nil && c24Is404(h), "C24/disabled-dashboard-endpoint-active")
		verif_assert(c24Find("/api/topology") == nil && c24Find("/api/dashboard") == nil && c24Find("/api/nodes") == nil && c24Find("/api/mesh-test") == nil, "C24/dashboard-handler-registered-while-disabled")
	}
	if !cfg.EnablePprof {
		h := c24Find("/debug/")
		verif_assert(h != nil && c24Is404(h), "C24/disabled-pprof-endpoint-active")
		verif_assert(c24Find("/debug/pprof/") == nil, "C24/pprof-handler-registered-while-disabled")
	}
	// the mux is wrapped by the auth middleware iff a token hash is configured
	_, isMux := s.server.Handler.(*http.ServeMux)
	verif_assert(isMux == (cfg.TokenHash == ""), "C24/auth-wrapper-iff-token-configured")
}

func harnessC24Witness() {
	s := &Server{cfg: ServerConfig{TokenHash: "h"}}
	next := &c24Next{}
	r, _ := c24Request("/agents")
	s.requireAuth(next).ServeHTTP(&c24Writer{}, r)
	if next.reached == 1 {
		verif_assert(false, "witness")
	}
}
