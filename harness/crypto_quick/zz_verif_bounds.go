package crypto

// adversarial deliveries in the bounded history (C01)
const c01Deliveries = 3
