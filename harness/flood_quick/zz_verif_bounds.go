package flood

const (
	c12N              = 3
	c12Announcers     = 3
	c12LateN          = 3
	c12HopLimit       = true // also run every composition with max_hops = N-1
	c12LateAnnouncers = 2
)
