package flood

const (
	c12N              = 3
	c12LateAnnouncers = 2
	c12Announcers     = 3
)
