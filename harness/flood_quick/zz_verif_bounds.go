package flood

const (
	c12N         = 3
	c12Announcers = 3
)
