package agent

import (
	"context"
	"time"

	"github.com/postalsys/muti-metroo/internal/identity"
	"github.com/postalsys/muti-metroo/internal/peer"
	"github.com/postalsys/muti-metroo/internal/protocol"
	"github.com/postalsys/muti-metroo/internal/routing"
)

// C39: control responses reach only the agent that asked.
// Transit agent T between requesters A, B and target X. SendToPeer is the
// harness recorder (c16SendToPeer), GetPeer returns a dummy connection.

func c39GetPeer(m *peer.Manager, id identity.AgentID) *peer.Connection {
	return &peer.Connection{RemoteID: id}
}

func c39Transit() *Agent {
	a := c16Agent()
	a.routeMgr = routing.NewManager(a.id)
	a.pendingControl = make(map[uint64]*pendingControlRequest)
	a.forwardedControl = make(map[uint64]*forwardedControlRequest)
	return a
}

func c39Request(a *Agent, from identity.AgentID, id uint64, target identity.AgentID, data byte) {
	req := &protocol.ControlRequest{RequestID: id, ControlType: protocol.ControlTypeStatus, TargetAgent: target, Path: []identity.AgentID{target}, Data: []byte{data}}
	a.handleControlRequest(from, &protocol.Frame{Type: protocol.FrameControlRequest, Payload: req.Encode()})
}

func c39Response(a *Agent, from identity.AgentID, id uint64, data byte) {
	resp := &protocol.ControlResponse{RequestID: id, ControlType: protocol.ControlTypeStatus, Success: true, Data: []byte{data}}
	a.handleControlResponse(from, &protocol.Frame{Type: protocol.FrameControlResponse, Payload: resp.Encode()})
}

// who received a response carrying answer byte d
func c39Delivered(d byte) (identity.AgentID, int) {
	var to identity.AgentID
	n := 0
	for _, s := range c16Log {
		if s.f.Type != protocol.FrameControlResponse {
			continue
		}
		r, err := protocol.DecodeControlResponse(s.f.Payload)
		if err == nil && len(r.Data) == 1 && r.Data[0] == d {
			to = s.to
			n++
		}
	}
	return to, n
}

func c39Run(allowSameID bool, tagPrefix string) {
	t := c39Transit()
	A, B, X := c16Peer(0), c16Peer(1), c16Peer(2)
	idA, idB := verif_nondet_u64(), verif_nondet_u64()
	if !allowSameID {
		verif_assume(idA != idB)
	}
	c16Log = nil
	c39Request(t, A, idA, X, 1)
	c39Request(t, B, idB, X, 2)
	// both requests went on to X
	fw := 0
	for _, s := range c16Log {
		if s.f.Type == protocol.FrameControlRequest && s.to == X {
			fw++
		}
	}
	verif_assert(fw == 2, tagPrefix+"/requests-forwarded-to-target")
	// X answers both (answer byte 0xA1 for A's request, 0xB2 for B's), in either order
	if verif_nondet_bool() {
		c39Response(t, X, idA, 0xA1)
		c39Response(t, X, idB, 0xB2)
	} else {
		c39Response(t, X, idB, 0xB2)
		c39Response(t, X, idA, 0xA1)
	}
	toA, nA := c39Delivered(0xA1)
	toB, nB := c39Delivered(0xB2)
	verif_assert(nA == 1 && toA == A, tagPrefix+"/answer-to-first-requester-misdelivered-or-lost")
	verif_assert(nB == 1 && toB == B, tagPrefix+"/answer-to-second-requester-misdelivered-or-lost")
	verif_assert(len(t.forwardedControl) == 0, tagPrefix+"/forwarded-request-record-leaked")
}

func harnessC39Transit() {
	c39Run(false, "C39")
	verif_reach("C39/transit")
}

// agents number their requests independently (each from 1): the same id from two requesters
func harnessC39TransitSameID() {
	c39Run(true, "C39/same-id")
	verif_reach("C39/transit-same-id")
}

// an agent that both originates and relays requests
func harnessC39OwnAndRelayed() {
	t := c39Transit()
	A, X := c16Peer(0), c16Peer(2)
	own := verif_nondet_u64()
	ch := make(chan *protocol.ControlResponse, 1)
	t.pendingControl[own] = &pendingControlRequest{RequestID: own, ResponseCh: ch}
	idA := verif_nondet_u64()
	allowSame := verif_nondet_bool()
	if !allowSame {
		verif_assume(idA != own)
	}
	c16Log = nil
	c39Request(t, A, idA, X, 1)
	c39Response(t, X, idA, 0xA1) // the answer to A's relayed request
	verif_reach("C39/own-and-relayed")
	toA, nA := c39Delivered(0xA1)
	if allowSame {
		verif_assert(!(nA >= 1 && len(ch) >= 1), "C39/one-response-delivered-to-two-requesters")
		verif_assert(nA == 1 && toA == A, "C39/relayed-answer-consumed-by-own-pending-request")
	} else {
		verif_assert(nA == 1 && toA == A, "C39/relayed-answer-misdelivered")
		verif_assert(len(ch) == 0, "C39/own-request-answered-by-foreign-response")
	}
}

// requests that one agent originates concurrently: a request whose send fails
// while others are in flight must not make a later request reuse an identifier
// that is still waiting for its answer
func harnessC39OwnConcurrent() {
	t := c39Transit()
	P1, P2, P3 := c16Peer(0), c16Peer(1), c16Peer(2)
	for _, p := range []identity.AgentID{P1, P2, P3} {
		t.routeMgr.AgentTable().AddRoute(&routing.AgentRoute{AgentID: p, NextHop: p, OriginAgent: p, Metric: 1, Path: []identity.AgentID{p}, Sequence: 1})
	}
	c16Log = nil
	c16StallTo, c16Stall = P1, make(chan struct{})
	var ry, rz *protocol.ControlResponse
	var errx error
	ctx := context.Background()
	go func() { _, errx = t.SendControlRequestWithData(ctx, P1, protocol.ControlTypeStatus, nil) }()
	verif_drain() // X hangs in its send
	go func() { ry, _ = t.SendControlRequestWithData(ctx, P2, protocol.ControlTypeStatus, nil) }()
	verif_drain() // Y is sent and waits for P2
	close(c16Stall)
	verif_drain() // X's link drops: X fails
	go func() { rz, _ = t.SendControlRequestWithData(ctx, P3, protocol.ControlTypeStatus, nil) }()
	verif_drain() // Z is sent and waits for P3
	c16Stall = nil
	verif_reach("C39/own-concurrent")
	verif_assert(errx != nil, "C39/failed-send-not-reported")
	var idY, idZ uint64
	n := 0
	for _, s := range c16Log {
		if s.f.Type != protocol.FrameControlRequest {
			continue
		}
		req, err := protocol.DecodeControlRequest(s.f.Payload)
		verif_assert(err == nil, "C39/request-does-not-decode")
		if err != nil {
			return
		}
		n++
		if s.to == P2 {
			idY = req.RequestID
		}
		if s.to == P3 {
			idZ = req.RequestID
		}
	}
	verif_assert(n == 2, "C39/requests-not-sent")
	verif_assert(idY != idZ, "C39/request-identifier-reused-while-the-earlier-request-is-in-flight")
	c39Response(t, P2, idY, 0xB2)
	c39Response(t, P3, idZ, 0xC3)
	verif_drain()
	verif_assert(ry != nil && len(ry.Data) == 1 && ry.Data[0] == 0xB2, "C39/own-request-answered-by-foreign-response")
	verif_assert(rz != nil && len(rz.Data) == 1 && rz.Data[0] == 0xC3, "C39/own-request-answered-by-foreign-response")
}

// an own request that its caller gives up on (context deadline) leaves no
// record behind: a later relayed request that happens to carry the same
// identifier still gets its answer back to the agent that asked
func harnessC39AbandonedRequest() {
	t := c39Transit()
	A, X, Y := c16Peer(0), c16Peer(1), c16Peer(2)
	t.routeMgr.AgentTable().AddRoute(&routing.AgentRoute{AgentID: X, NextHop: X, OriginAgent: X, Metric: 1, Path: []identity.AgentID{X}, Sequence: 1})
	c16Log = nil
	verif_set_now(1 << 40)
	ctx, cancel := context.WithTimeout(context.Background(), time.Second)
	defer cancel()
	var errOwn error
	done := false
	go func() {
		_, errOwn = t.SendControlRequestWithData(ctx, X, protocol.ControlTypeStatus, nil)
		done = true
	}()
	verif_drain() // sent; X never answers
	for i := 0; i < 3 && verif_timers() > 0; i++ {
		verif_fire_timer(0) // the caller's deadline
		verif_drain()
	}
	verif_reach("C39/abandoned")
	verif_assert(done && errOwn != nil, "C39/abandoned-request-did-not-return")
	verif_assert(len(t.pendingControl) == 0, "C39/abandoned-request-record-left")
	// A's request through T to Y, with the identifier T's own abandoned request had
	var own uint64
	for _, s := range c16Log {
		if s.f.Type == protocol.FrameControlRequest && s.to == X {
			if req, err := protocol.DecodeControlRequest(s.f.Payload); err == nil {
				own = req.RequestID
			}
		}
	}
	c16Log = nil
	c39Request(t, A, own, Y, 1)
	c39Response(t, Y, own, 0xA1)
	toA, nA := c39Delivered(0xA1)
	verif_assert(nA == 1 && toA == A, "C39/relayed-answer-swallowed-by-an-abandoned-own-request")
}
