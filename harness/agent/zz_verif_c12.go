package agent

import (
	"github.com/postalsys/muti-metroo/internal/identity"
	"github.com/postalsys/muti-metroo/internal/protocol"
)

// C12 (stream open follows the recorded path): one transit step of the real
// handleStreamOpen. With the chain property of recorded paths (flood harness)
// this gives, by induction on the path, that the open reaches the origin.
func harnessC12Open() {
	a := c16Agent()
	from := c16Peer(verif_choose(2))
	n := verif_choose(4) // remaining path of 0..3 agents
	var rem []identity.AgentID
	for i := 0; i < n; i++ {
		rem = append(rem, c16Peer(2+verif_choose(4)))
	}
	open := &protocol.StreamOpen{RequestID: verif_nondet_u64(), AddressType: protocol.AddrTypeIPv4, Address: []byte{10, 0, 0, 1}, Port: 80, TTL: 8, RemainingPath: rem}
	sid := verif_nondet_u64()
	c16Log = nil
	a.handleStreamOpen(from, &protocol.Frame{Type: protocol.FrameStreamOpen, StreamID: sid, Payload: open.Encode()})
	verif_reach("C12/open-step")
	if n == 0 {
		// we are the advertised origin: handled here, nothing forwarded
		verif_assert(len(c16Log) == 0, "C12/origin-forwarded-the-open")
		return
	}
	verif_reach("C12/open-transit")
	verif_assert(len(c16Log) == 1, "C12/open-not-forwarded-exactly-once")
	if len(c16Log) != 1 {
		return
	}
	s := c16Log[0]
	verif_assert(s.to == rem[0] && s.f.Type == protocol.FrameStreamOpen, "C12/open-not-sent-to-the-next-agent-of-the-path")
	fwd, err := protocol.DecodeStreamOpen(s.f.Payload)
	verif_assert(err == nil, "C12/forwarded-open-does-not-decode")
	if err != nil {
		return
	}
	same := len(fwd.RemainingPath) == n-1
	for i := 0; same && i < n-1; i++ {
		same = fwd.RemainingPath[i] == rem[i+1]
	}
	verif_assert(same, "C12/forwarded-open-does-not-carry-the-rest-of-the-path")
	verif_assert(fwd.RequestID == open.RequestID && fwd.Port == 80, "C12/forwarded-open-altered")
}
