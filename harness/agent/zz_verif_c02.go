package agent

import (
	"github.com/postalsys/muti-metroo/internal/crypto"
	"github.com/postalsys/muti-metroo/internal/identity"
	"github.com/postalsys/muti-metroo/internal/protocol"
)

// C02 at the tunnel level: the key of a UDP association is installed by the
// open acknowledgement. An acknowledgement delivered twice (duplicated or
// replayed by the next hop) must not re-install the same key with the send
// counter back at zero: no (key, nonce) pair is used for two datagrams.
func harnessC02UDPDuplicateAck() {
	a := c16Agent()
	hop := c16Peer(0)
	rid := verif_nondet_u64()
	ephPriv, ephPub, _ := crypto.GenerateEphemeralKeypair()
	dest := &udpDestAssociation{StreamID: 11, RequestID: rid, ExitPeerID: c16Peer(2), NextHop: hop,
		EphemeralPrivKey: ephPriv, EphemeralPubKey: ephPub, PendingOpen: make(chan struct{})}
	ing := &udpIngressAssociation{BaseStreamID: 3, destAssocs: map[string]*udpDestAssociation{"x": dest}}
	a.udpIngressByBase = map[uint64]*udpIngressAssociation{3: ing}
	a.udpIngressByLocalStream = map[uint64]*udpDestLookup{11: {Ingress: ing, Dest: dest}}
	_, rpub, _ := crypto.GenerateEphemeralKeypair()
	ack := &protocol.UDPOpenAck{RequestID: rid, BoundAddrType: protocol.AddrTypeIPv4, BoundAddr: []byte{1, 2, 3, 4}, BoundPort: 9, EphemeralPubKey: rpub}
	frame := &protocol.Frame{Type: protocol.FrameUDPOpenAck, StreamID: 11, Payload: ack.Encode()}
	p := verif_nondet_bytes(1)
	a.handleUDPOpenAck(hop, frame)
	k1 := dest.SessionKey
	verif_assert(k1 != nil, "C02/udp-key-not-installed")
	if k1 == nil {
		return
	}
	c1, err1 := k1.Encrypt(p)
	a.handleUDPOpenAck(hop, frame)
	k2 := dest.SessionKey
	verif_reach("C02/udp-duplicate-ack")
	if k2 == nil {
		return
	}
	c2, err2 := k2.Encrypt(p)
	if err1 != nil || err2 != nil {
		return
	}
	sameNonce := true
	for i := 0; i < crypto.NonceSize; i++ {
		sameNonce = sameNonce && c1[i] == c2[i]
	}
	verif_assert(!(k1.Key() == k2.Key() && sameNonce), "C02/nonce-reused-under-one-key-after-a-duplicate-open-ack")
	_ = identity.AgentID{}
}
