package agent

import (
	"github.com/postalsys/muti-metroo/internal/config"
	"github.com/postalsys/muti-metroo/internal/socks5"
)

// C21 (configuration wiring): the authenticators the agent builds from its
// configuration. With authentication enabled there is no "no authentication"
// method, and a username/password pair is accepted only for a configured user
// whose configured, non-empty plaintext password it equals (or whose bcrypt
// hash matches: uninterpreted).
func harnessC21Build() {
	a := c16Agent()
	a.cfg = &config.Config{}
	a.cfg.SOCKS5.Auth.Enabled = verif_nondet_bool()
	names := []string{"u1", "u2"}
	kinds := [2]int{}
	n := verif_choose(3)
	anyHash := false
	for i := 0; i < n; i++ {
		u := config.SOCKS5UserConfig{Username: names[i]}
		kinds[i] = 1 + verif_choose(3)
		switch kinds[i] {
		case 1:
			u.Password = "pw"
		case 2:
			u.PasswordHash = "$2a$10$hash"
			anyHash = true
		case 3: // neither a password nor a hash
		}
		a.cfg.SOCKS5.Auth.Users = append(a.cfg.SOCKS5.Auth.Users, u)
	}
	auths := a.buildSOCKS5Auth()
	verif_reach("C21/build")
	if !a.cfg.SOCKS5.Auth.Enabled {
		return
	}
	verif_reach("C21/build-enabled")
	verif_assert(len(auths) > 0, "C21/no-authenticator-installed-with-auth-enabled")
	user := []string{"u1", "u2", "zz"}[verif_choose(3)]
	pass := []string{"", "pw", "x"}[verif_choose(3)]
	for _, au := range auths {
		verif_assert(au.GetMethod() != socks5.AuthMethodNoAuth, "C21/no-auth-method-offered-with-auth-enabled")
		up, ok := au.(*socks5.UserPassAuthenticator)
		if !ok || anyHash {
			continue
		}
		want := false
		for i := 0; i < n; i++ {
			if names[i] == user && kinds[i] == 1 && pass == "pw" {
				want = true
			}
		}
		got := up.Credentials.Valid(user, pass)
		verif_assert(!got || want, "C21/credentials-accepted-that-are-not-configured")
		verif_assert(got || !want, "C21/configured-credentials-refused")
	}
}
