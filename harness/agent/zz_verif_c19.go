package agent

import (
	"net"

	"github.com/postalsys/muti-metroo/internal/config"
	"github.com/postalsys/muti-metroo/internal/routing"
)

// C19 (history part): the exit allow list follows the dynamic routes through
// every sequence of route-management operations.

// the third network shares its base address with the first (different prefix length)
var c19Nets = [3]string{"10.1.0.0/16", "10.1.1.0/24", "10.1.0.0/24"}

func harnessC19History() {
	a := c16Agent()
	a.cfg = &config.Config{}
	a.routeMgr = routing.NewManager(a.id)
	var present [3]bool
	for step := 0; step < c19Steps; step++ {
		k := verif_choose(3)
		if verif_nondet_bool() {
			_, err := a.ManageRoute("add", c19Nets[k], verif_nondet_u16())
			verif_assert(err == nil, "C19/add-succeeds")
			present[k] = true
		} else {
			_, err := a.ManageRoute("remove", c19Nets[k], 0)
			verif_assert((err == nil) == present[k], "C19/remove-succeeds-iff-present")
			present[k] = false
		}
	}
	verif_reach("C19/history")
	// probe an arbitrary address in 10.1.0.0/15 (covers inside/outside both networks)
	ip := net.IP{10, verif_nondet_u8() & 1, verif_nondet_u8(), verif_nondet_u8()}
	want := (present[0] && ip[1] == 1) || (present[1] && ip[1] == 1 && ip[2] == 1) || (present[2] && ip[1] == 1 && ip[2] == 0)
	got := a.exitHandler != nil && a.exitHandler.IsAllowedForVerif(ip)
	verif_assert(got == want, "C19/allow-list-equals-present-routes")
	n := 0
	for _, p := range present {
		if p {
			n++
		}
	}
	if a.exitHandler != nil {
		verif_assert(a.exitHandler.AllowedRouteCount() == n, "C19/allow-list-size-equals-present-routes")
	}
	verif_assert(len(a.routeMgr.GetDynamicRoutes()) == n, "C19/dynamic-routes-equal-history")
}
