package agent

import (
	"time"

	"github.com/postalsys/muti-metroo/internal/config"
	"github.com/postalsys/muti-metroo/internal/crypto"
	"github.com/postalsys/muti-metroo/internal/flood"
	"github.com/postalsys/muti-metroo/internal/identity"
	"github.com/postalsys/muti-metroo/internal/protocol"
	"github.com/postalsys/muti-metroo/internal/routing"
	"github.com/postalsys/muti-metroo/internal/sleep"
)

// C28: on every path a command can arrive by, the agent changes its sleep
// state or forwards the command only for a valid signature inside the window.

var c28Sleeps, c28Wakes int

// replacements for (*sleep.Manager).Sleep / Wake (configured in props)
func c28Sleep(m *sleep.Manager) error { c28Sleeps++; return nil }
func c28Wake(m *sleep.Manager) error  { c28Wakes++; return nil }

type c28Sender struct{ log []c16Sent }

func (s *c28Sender) SendToPeer(id identity.AgentID, f *protocol.Frame) error {
	s.log = append(s.log, c16Sent{id, f})
	return nil
}
func (s *c28Sender) GetPeerIDs() []identity.AgentID {
	return []identity.AgentID{c16Peer(0), c16Peer(1)}
}

const c28Sec = int64(time.Second)

func c28Agent() (*Agent, *c28Sender, *[32]byte) {
	a := c16Agent()
	a.routeMgr = routing.NewManager(a.id)
	var pub [32]byte
	pub[0], pub[31] = verif_nondet_u8(), verif_nondet_u8()
	cfg := flood.DefaultFloodConfig()
	cfg.SigningPublicKey = &pub
	snd := &c28Sender{}
	a.flooder = flood.NewFlooder(cfg, a.id, a.routeMgr, snd)
	a.sleepMgr = &sleep.Manager{}
	c28Sleeps, c28Wakes = 0, 0
	return a, snd, &pub
}

func c28Sig() [protocol.SignatureSize]byte {
	var s [protocol.SignatureSize]byte
	s[0] = verif_nondet_u8()
	s[protocol.SignatureSize-1] = verif_nondet_u8()
	return s
}

func c28Valid(pub *[32]byte, signable []byte, sig [protocol.SignatureSize]byte, ts uint64, now int64) bool {
	zero := true
	for _, b := range sig {
		zero = zero && b == 0
	}
	inWindow := false
	if ts < (1 << 32) {
		d := now - int64(ts)*c28Sec
		if d < 0 {
			d = -d
		}
		inWindow = d <= int64(5*time.Minute)
	}
	return crypto.Verify(*pub, signable, sig) && !zero && inWindow
}

func harnessC28Frames() {
	a, snd, pub := c28Agent()
	now := verif_nondet_i64()
	verif_assume(now > 1000*c28Sec && now < (1<<31)*c28Sec)
	verif_set_now(now)
	ts, id, sig := verif_nondet_u64(), verif_nondet_u64(), c28Sig()
	origin := c16Peer(3)
	var valid bool
	kind := verif_choose(4)
	switch kind {
	case 0:
		cmd := &protocol.SleepCommand{OriginAgent: origin, CommandID: id, Timestamp: ts, Signature: sig}
		valid = c28Valid(pub, cmd.SignableBytes(), sig, ts, now)
		a.handleSleepCommand(c16Peer(0), &protocol.Frame{Type: protocol.FrameSleepCommand, Payload: cmd.Encode()})
	case 1:
		cmd := &protocol.WakeCommand{OriginAgent: origin, CommandID: id, Timestamp: ts, Signature: sig}
		valid = c28Valid(pub, cmd.SignableBytes(), sig, ts, now)
		a.handleWakeCommand(c16Peer(0), &protocol.Frame{Type: protocol.FrameWakeCommand, Payload: cmd.Encode()})
	case 2:
		cmd := &protocol.SleepCommand{OriginAgent: origin, CommandID: id, Timestamp: ts, Signature: sig}
		valid = c28Valid(pub, cmd.SignableBytes(), sig, ts, now)
		a.handleQueuedState(c16Peer(0), &protocol.Frame{Type: protocol.FrameQueuedState, Payload: (&protocol.QueuedState{SleepCmd: cmd}).Encode()})
	case 3:
		cmd := &protocol.WakeCommand{OriginAgent: origin, CommandID: id, Timestamp: ts, Signature: sig}
		valid = c28Valid(pub, cmd.SignableBytes(), sig, ts, now)
		a.handleQueuedState(c16Peer(0), &protocol.Frame{Type: protocol.FrameQueuedState, Payload: (&protocol.QueuedState{WakeCmd: cmd}).Encode()})
	}
	verif_reach("C28/frames")
	changed := c28Sleeps+c28Wakes > 0
	if kind < 2 {
		verif_assert(!changed || valid, "C28/state-changed-by-invalid-command-frame")
		verif_assert(len(snd.log) == 0 || valid, "C28/invalid-command-forwarded")
		verif_assert(!valid || changed, "C28/valid-command-ignored")
	} else {
		verif_assert(len(snd.log) == 0 || valid, "C28/invalid-queued-command-forwarded")
		verif_assert(!changed || valid, "C28/queued-state-command-acted-on-without-verification")
	}
	if kind == 0 || kind == 2 {
		verif_assert(c28Wakes == 0, "C28/sleep-command-woke")
	} else {
		verif_assert(c28Sleeps == 0, "C28/wake-command-slept")
	}
}

// C28 (configuration wiring): an agent built by the real constructor from a
// configuration that names a signing public key -- with or without the private
// key, which only the operator's agent holds -- refuses an unsigned command
func harnessC28Wiring() {
	cfg := config.Default()
	cfg.Agent.DataDir = "/vfs/data"
	verif_fs_mkdir("/vfs/data")
	cfg.Management.SigningPublicKey = "0101010101010101010101010101010101010101010101010101010101010101"
	if verif_nondet_bool() {
		cfg.Management.SigningPrivateKey = "02020202020202020202020202020202020202020202020202020202020202020303030303030303030303030303030303030303030303030303030303030303"
	}
	a, err := New(cfg)
	verif_reach("C28/wiring")
	if err != nil || a == nil {
		return // the only failing path of the model: the random agent ID came out all-zero
	}
	verif_reach("C28/wiring-constructed")
	a.sleepMgr = &sleep.Manager{}
	c28Sleeps, c28Wakes = 0, 0
	verif_set_now(1 << 40)
	cmd := &protocol.SleepCommand{OriginAgent: c16Peer(2), CommandID: verif_nondet_u64(), Timestamp: uint64((1 << 40) / c28Sec)}
	a.handleSleepCommand(c16Peer(0), &protocol.Frame{Type: protocol.FrameSleepCommand, Payload: cmd.Encode()})
	verif_assert(c28Sleeps == 0, "C28/unsigned-command-changed-sleep-state-although-a-signing-key-is-configured")
}
