package agent

import (
	"github.com/postalsys/muti-metroo/internal/crypto"
	"github.com/postalsys/muti-metroo/internal/protocol"
	"github.com/postalsys/muti-metroo/internal/stream"
	"io"
)

// C07: frames never exceed the payload limit and stream bytes are re-assembled
// exactly. Write sizes are case-split at the chunk-boundary classes
// (k*M - 1, k*M, k*M + 1 for k = 0..3); contents are a position-dependent
// pattern with symbolic bytes at the chunk boundaries.

func c07Keys() (*crypto.SessionKey, *crypto.SessionKey) {
	var secret, ip, rp [crypto.KeySize]byte
	secret[0], ip[0], rp[0] = 1, 2, 3
	return crypto.DeriveSessionKey(secret, 7, ip, rp, true), crypto.DeriveSessionKey(secret, 7, ip, rp, false)
}

func c07Data(n, m int) []byte {
	b := make([]byte, n)
	for i := range b {
		b[i] = byte(i*7 + i/251)
	}
	// symbolic bytes around every chunk boundary
	for k := 1; k <= 3; k++ {
		for _, p := range [...]int{k*m - 1, k * m} {
			if p >= 0 && p < n {
				b[p] = verif_nondet_u8()
			}
		}
	}
	if n > 0 {
		b[0] = verif_nondet_u8()
		b[n-1] = verif_nondet_u8()
	}
	return b
}

func c07Len(m int) int {
	classes := [...]int{0, 1, m - 1, m, m + 1, 2*m - 1, 2 * m, 2*m + 1, 3 * m}
	return classes[verif_choose(c07Classes)]
}

func c07Conn() (*Agent, *meshConn) {
	a := c16Agent()
	ik, _ := c07Keys()
	s := stream.NewStream(5, a.id, c16Peer(0), 7)
	s.Open()
	s.SetSessionKey(ik)
	return a, &meshConn{agent: a, stream: s, peerID: c16Peer(0), streamID: 5}
}

func harnessC07MeshWrite() {
	const m = protocol.MaxPayloadSize - crypto.EncryptionOverhead
	_, c := c07Conn()
	n := c07Len(m)
	b := c07Data(n, m)
	var sealed []byte
	verif_aead_seal_hook(func(nonce, pt []byte) { sealed = append(sealed, pt...) })
	c16Log = nil
	w, err := c.Write(b)
	verif_reach("C07/mesh-write")
	verif_assert(err == nil && w == n, "C07/write-result")
	total := 0
	for _, s := range c16Log {
		verif_assert(s.f.Type == protocol.FrameStreamData && s.f.StreamID == 5, "C07/frame-identity")
		verif_assert(len(s.f.Payload) <= protocol.MaxPayloadSize, "C07/frame-exceeds-payload-limit")
		verif_assert(len(s.f.Payload) > crypto.EncryptionOverhead, "C07/empty-chunk-sent")
		enc, err := s.f.Encode()
		verif_assert(err == nil && len(enc) == protocol.HeaderSize+len(s.f.Payload), "C07/frame-rejected-by-encoder")
		total += len(s.f.Payload) - crypto.EncryptionOverhead
	}
	verif_assert(total == n, "C07/bytes-sent-differ-from-bytes-written")
	// the sealed plaintext pieces are the written bytes, contiguous and in order
	verif_assert(len(sealed) == n, "C07/chunks-do-not-cover-the-write")
	same := len(sealed) == n
	for i := 0; same && i < n; i++ {
		if i == 0 || i == n-1 || i%m == 0 || i%m == m-1 || i%4093 == 0 {
			same = sealed[i] == b[i]
		}
	}
	verif_assert(same, "C07/chunks-reordered-or-altered")
}

func harnessC07WriteStreamData() {
	const m = protocol.MaxPayloadSize
	a := c16Agent()
	n := c07Len(m)
	b := c07Data(n, m)
	flags := verif_nondet_u8()
	c16Log = nil
	err := a.WriteStreamData(c16Peer(0), 9, b, flags)
	verif_reach("C07/write-stream-data")
	verif_assert(err == nil, "C07/write-stream-data-error")
	var got []byte
	for i, s := range c16Log {
		verif_assert(len(s.f.Payload) <= protocol.MaxPayloadSize, "C07/frame-exceeds-payload-limit")
		if i < len(c16Log)-1 {
			verif_assert(s.f.Flags == 0, "C07/flags-on-non-final-chunk")
		} else {
			verif_assert(s.f.Flags == flags, "C07/flags-missing-on-final-chunk")
		}
		got = append(got, s.f.Payload...)
	}
	verif_assert(len(c16Log) >= 1, "C07/nothing-sent")
	verif_assert(len(got) == n, "C07/bytes-sent-differ-from-bytes-written")
	same := len(got) == n
	for i := 0; same && i < n; i++ {
		if i == 0 || i == n-1 || i%m == 0 || i%m == m-1 || i%4093 == 0 {
			same = got[i] == b[i]
		}
	}
	verif_assert(same, "C07/chunks-reordered-or-altered")
}

// receiver: successive Reads with an arbitrary small caller buffer return the
// concatenation of the decrypted chunks
func harnessC07MeshRead() {
	_, c := c07Conn()
	_, rk := c07Keys()
	var want []byte
	nchunks := 1 + verif_choose(3)
	for i := 0; i < nchunks; i++ {
		pt := verif_nondet_bytes(1 + verif_choose(2))
		want = append(want, pt...)
		ct, err := rk.Encrypt(pt)
		verif_assert(err == nil, "C07/setup")
		verif_assert(c.stream.PushData(ct) == nil, "C07/setup")
	}
	// the sender finishes: a reader that lost bytes sees the end of the stream instead of blocking
	c.stream.HandleRemoteFinWrite()
	bufSize := 1 + verif_choose(3)
	var got []byte
	for round := 0; round < 16; round++ {
		buf := make([]byte, bufSize)
		n, err := c.Read(buf)
		if err == io.EOF {
			break
		}
		verif_assert(err == nil && n > 0 && n <= bufSize, "C07/read-result")
		if err != nil || n == 0 {
			return
		}
		got = append(got, buf[:n]...)
	}
	verif_reach("C07/mesh-read")
	same := len(got) == len(want)
	for i := 0; same && i < len(want); i++ {
		same = got[i] == want[i]
	}
	verif_assert(same, "C07/reassembled-bytes-differ")
}
