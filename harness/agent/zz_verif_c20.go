package agent

import (
	"context"

	"github.com/postalsys/muti-metroo/internal/crypto"
	"github.com/postalsys/muti-metroo/internal/forward"
	"github.com/postalsys/muti-metroo/internal/identity"
	"github.com/postalsys/muti-metroo/internal/protocol"
)

// C20 (dispatch at the endpoint agent): a STREAM_OPEN for "forward:<key>"
// reaches the port-forward handler with exactly the key the peer asked for.

var (
	c20Keys  []string
	c20Calls int
)

// replacement for (*forward.Handler).HandleStreamOpen (see props/C20.json)
func c20ForwardOpen(h *forward.Handler, ctx context.Context, streamID uint64, requestID uint64, remoteID identity.AgentID, key string, pub [crypto.KeySize]byte) error {
	c20Calls++
	c20Keys = append(c20Keys, key)
	return nil
}

func harnessC20Dispatch() {
	a := c16Agent()
	a.forwardHandler = &forward.Handler{}
	// key bytes over the letters of the prefix itself, a separator and plain characters
	n := 1 + verif_choose(3)
	kb := verif_nondet_bytes(n)
	for i := range kb {
		verif_assume(kb[i] == 'f' || kb[i] == 'o' || kb[i] == 'a' || kb[i] == 'd' || kb[i] == ':' || kb[i] == 'p' || kb[i] == 'i')
	}
	key := string(kb)
	dest := protocol.ForwardStreamPrefix + key
	addr := append([]byte{byte(len(dest))}, dest...)
	open := &protocol.StreamOpen{RequestID: verif_nondet_u64(), AddressType: protocol.AddrTypeDomain, Address: addr, Port: 0, TTL: 8}
	c20Keys, c20Calls = nil, 0
	a.handleStreamOpen(c16Peer(0), &protocol.Frame{Type: protocol.FrameStreamOpen, StreamID: 5, Payload: open.Encode()})
	verif_reach("C20/dispatch")
	verif_assert(c20Calls == 1, "C20/forward-open-not-dispatched-exactly-once")
	if c20Calls == 1 {
		verif_assert(c20Keys[0] == key, "C20/endpoint-asked-for-a-different-key-than-requested")
	}
}
