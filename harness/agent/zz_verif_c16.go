package agent

import (
	"errors"
	"github.com/postalsys/muti-metroo/internal/identity"
	"github.com/postalsys/muti-metroo/internal/peer"
	"github.com/postalsys/muti-metroo/internal/protocol"
	"github.com/postalsys/muti-metroo/internal/routing"
	"github.com/postalsys/muti-metroo/internal/stream"
)

// C16 / C17: relay table and the transit handlers of the agent.

func c16Peer(k int) identity.AgentID {
	var id identity.AgentID
	id[0] = byte(0xB0 + k)
	return id
}

type c16Sent struct {
	to identity.AgentID
	f  *protocol.Frame
}

var c16Log []c16Sent

// replacement for (*peer.Manager).SendToPeer (configured in props): the mesh is the harness
// c16StallTo: sends to this peer hang until c16Stall is closed and then fail (a link that
// stops responding and is then dropped); unset in every harness that does not use it
var (
	c16StallTo identity.AgentID
	c16Stall   chan struct{}
)

func c16SendToPeer(m *peer.Manager, id identity.AgentID, f *protocol.Frame) error {
	if c16Stall != nil && id == c16StallTo {
		<-c16Stall
		return errors.New("peer link dropped")
	}
	c16Log = append(c16Log, c16Sent{id, f})
	return nil
}

func c16Agent() *Agent {
	id := c16Peer(9)
	return &Agent{id: id, tcpRelay: newRelayTable(), udpRelay: newRelayTable(), icmpRelay: newRelayTable(),
		streamMgr: stream.NewManager(stream.DefaultManagerConfig(), id)}
}

// two tunnels through this transit; stream ids are unique per connection only
func c16Tunnels(allowCollision bool) (*relayEntry, *relayEntry) {
	e1 := &relayEntry{UpstreamPeer: c16Peer(verif_choose(2)), UpstreamID: verif_nondet_u64(), DownstreamPeer: c16Peer(2 + verif_choose(2)), DownstreamID: verif_nondet_u64()}
	e2 := &relayEntry{UpstreamPeer: c16Peer(verif_choose(2)), UpstreamID: verif_nondet_u64(), DownstreamPeer: c16Peer(2 + verif_choose(2)), DownstreamID: verif_nondet_u64()}
	// what the per-connection allocators guarantee
	verif_assume(!(e1.UpstreamPeer == e2.UpstreamPeer && e1.UpstreamID == e2.UpstreamID))
	verif_assume(!(e1.DownstreamPeer == e2.DownstreamPeer && e1.DownstreamID == e2.DownstreamID))
	if !allowCollision {
		verif_assume(e1.UpstreamID != e2.UpstreamID && e1.DownstreamID != e2.DownstreamID)
	}
	return e1, e2
}

func c16Same(a, b *relayEntry) bool { return a == b }

// ---------- C17: bookkeeping ----------

func c17Close(r *relayTable, e *relayEntry, how int) {
	switch how {
	case 0:
		r.Delete(e)
	case 1:
		got, up := r.PopMatchingPeer(e.UpstreamID, e.UpstreamPeer)
		verif_assert(got == e && up, "C17/pop-from-upstream-returns-the-tunnel")
	case 2:
		got, up := r.PopMatchingPeer(e.DownstreamID, e.DownstreamPeer)
		verif_assert(got == e && !up, "C17/pop-from-downstream-returns-the-tunnel")
	case 3:
		got := r.PopDownstreamFromPeer(e.DownstreamID, e.DownstreamPeer)
		verif_assert(got == e, "C17/pop-downstream-returns-the-tunnel")
	}
}

func harnessC17Table() {
	r := newRelayTable()
	e1, e2 := c16Tunnels(false)
	r.Insert(e1)
	r.Insert(e2)
	up, _ := r.LookupBoth(e1.UpstreamID)
	verif_assert(up == e1 && r.LookupDownstream(e1.DownstreamID) == e1, "C17/insert-indexes-both-legs")
	// a pop for the wrong peer must not remove anything
	wrong := c16Peer(7)
	g, _ := r.PopMatchingPeer(e1.UpstreamID, wrong)
	verif_assert(g == nil && r.PopDownstreamFromPeer(e1.DownstreamID, wrong) == nil, "C17/pop-checks-peer")
	verif_assert(len(r.byUpstream) == 2 && len(r.byDownstream) == 2, "C17/failed-pop-removes-nothing")
	c17Close(r, e1, verif_choose(4))
	verif_reach("C17/table")
	u1, d1 := r.LookupBoth(e1.UpstreamID)
	_ = d1
	verif_assert(u1 != e1 && r.LookupDownstream(e1.DownstreamID) != e1, "C17/closed-tunnel-leaves-no-entry")
	u2, _ := r.LookupBoth(e2.UpstreamID)
	verif_assert(u2 == e2 && r.LookupDownstream(e2.DownstreamID) == e2, "C17/close-leaves-other-tunnel")
	verif_assert(len(r.byUpstream) == 1 && len(r.byDownstream) == 1, "C17/indices-consistent")
	// peer disconnect removes exactly the tunnels that involve the peer
	p := c16Peer(verif_choose(4))
	n := r.DeleteByPeer(p)
	involved := e2.UpstreamPeer == p || e2.DownstreamPeer == p
	if involved {
		verif_assert(n == 1 && len(r.byUpstream) == 0 && len(r.byDownstream) == 0, "C17/disconnect-clears-both-indices")
	} else {
		verif_assert(n == 0 && len(r.byUpstream) == 1 && len(r.byDownstream) == 1, "C17/disconnect-keeps-unrelated-tunnel")
	}
}

// the same with numerically colliding identifiers from different connections
func harnessC17Collision() {
	a := c16Agent()
	e1, e2 := c16Tunnels(true)
	a.tcpRelay.Insert(e1)
	a.tcpRelay.Insert(e2)
	verif_reach("C17/collision")
	// both tunnels are closed by their upstream peers: what the close handler does with the table
	if g, _ := a.tcpRelay.PopMatchingPeer(e1.UpstreamID, e1.UpstreamPeer); g != nil {
		verif_assert(g == e1, "C17/close-pops-own-entry")
	}
	if g, _ := a.tcpRelay.PopMatchingPeer(e2.UpstreamID, e2.UpstreamPeer); g != nil {
		verif_assert(g == e2, "C17/close-pops-own-entry")
	}
	verif_assert(len(a.tcpRelay.byUpstream) == 0 && len(a.tcpRelay.byDownstream) == 0, "C17/relay-entry-leaks-after-id-collision")
}

// peer disconnect clears TCP, UDP and ICMP relay entries of that peer
func harnessC17Disconnect() {
	a := c16Agent()
	a.routeMgr = routing.NewManager(a.id)
	p := c16Peer(0)
	mk := func(upstream bool) *relayEntry {
		e := &relayEntry{UpstreamPeer: c16Peer(1), UpstreamID: verif_nondet_u64(), DownstreamPeer: c16Peer(2), DownstreamID: verif_nondet_u64()}
		verif_assume(e.UpstreamID != 77 && e.DownstreamID != 78)
		if upstream {
			e.UpstreamPeer = p
		} else {
			e.DownstreamPeer = p
		}
		return e
	}
	tabs := [3]*relayTable{a.tcpRelay, a.udpRelay, a.icmpRelay}
	for _, t := range tabs {
		t.Insert(mk(verif_nondet_bool()))
		t.Insert(&relayEntry{UpstreamPeer: c16Peer(1), UpstreamID: 77, DownstreamPeer: c16Peer(2), DownstreamID: 78})
	}
	a.handlePeerDisconnect(&peer.Connection{RemoteID: p}, nil)
	verif_reach("C17/disconnect")
	switch verif_choose(3) {
	case 0:
		verif_assert(len(a.tcpRelay.byUpstream) == 1 && len(a.tcpRelay.byDownstream) == 1, "C17/disconnect-clears-tcp-relays")
	case 1:
		verif_assert(len(a.udpRelay.byUpstream) == 1 && len(a.udpRelay.byDownstream) == 1, "C17/disconnect-clears-udp-relays")
	case 2:
		verif_assert(len(a.icmpRelay.byUpstream) == 1 && len(a.icmpRelay.byDownstream) == 1, "C17/disconnect-clears-icmp-relays")
	}
}

// ---------- C16: isolation in the transit handlers ----------

func c16Deliver(a *Agent, kind int, from identity.AgentID, id uint64, payload []byte) {
	switch kind {
	case 0:
		a.handleStreamData(from, &protocol.Frame{Type: protocol.FrameStreamData, StreamID: id, Payload: payload, Flags: verif_nondet_u8()})
	case 1:
		a.handleStreamClose(from, &protocol.Frame{Type: protocol.FrameStreamClose, StreamID: id})
	case 2:
		a.handleStreamReset(from, &protocol.Frame{Type: protocol.FrameStreamReset, StreamID: id, Payload: (&protocol.StreamReset{ErrorCode: 1}).Encode()})
	case 4: // the downstream side acknowledges the open
		ack := &protocol.StreamOpenAck{RequestID: 1, BoundAddrType: protocol.AddrTypeIPv4, BoundAddr: []byte{1, 2, 3, 4}, BoundPort: 9}
		a.handleStreamOpenAck(from, &protocol.Frame{Type: protocol.FrameStreamOpenAck, StreamID: id, Payload: ack.Encode()})
	case 3: // the downstream side refuses the open
		a.handleStreamOpenErr(from, &protocol.Frame{Type: protocol.FrameStreamOpenErr, StreamID: id, Payload: (&protocol.StreamOpenErr{RequestID: 1, ErrorCode: 2, Message: "x"}).Encode()})
	}
}

func c16Check(a *Agent, e1, e2 *relayEntry, kind int, fromUp bool, payload []byte, tagPrefix string) {
	// exactly one frame, on e1's other leg, with e1's identifier there
	verif_assert(len(c16Log) == 1, tagPrefix+"/frame-forwarded-exactly-once")
	if len(c16Log) == 1 {
		s := c16Log[0]
		if fromUp {
			verif_assert(s.to == e1.DownstreamPeer && s.f.StreamID == e1.DownstreamID, tagPrefix+"/forwarded-on-own-downstream-leg")
		} else {
			verif_assert(s.to == e1.UpstreamPeer && s.f.StreamID == e1.UpstreamID, tagPrefix+"/forwarded-on-own-upstream-leg")
		}
		if kind == 0 {
			verif_assert(len(s.f.Payload) == len(payload) && s.f.Payload[0] == payload[0], tagPrefix+"/payload-unchanged")
		}
	}
	// the other tunnel is untouched
	u2, _ := a.tcpRelay.LookupBoth(e2.UpstreamID)
	verif_assert(u2 == e2 && a.tcpRelay.LookupDownstream(e2.DownstreamID) == e2, tagPrefix+"/other-tunnel-untouched")
	if kind != 0 && kind != 4 {
		u1, _ := a.tcpRelay.LookupBoth(e1.UpstreamID)
		verif_assert(u1 != e1 && a.tcpRelay.LookupDownstream(e1.DownstreamID) != e1, tagPrefix+"/closed-tunnel-removed")
	} else {
		u1, _ := a.tcpRelay.LookupBoth(e1.UpstreamID)
		verif_assert(u1 == e1 && a.tcpRelay.LookupDownstream(e1.DownstreamID) == e1, tagPrefix+"/live-tunnel-removed")
	}
}

func harnessC16Transit() {
	a := c16Agent()
	e1, e2 := c16Tunnels(false)
	a.tcpRelay.Insert(e1)
	a.tcpRelay.Insert(e2)
	c16Log = nil
	kind := verif_choose(5)
	fromUp := verif_nondet_bool()
	if kind == 3 || kind == 4 {
		fromUp = false // the answer to an open comes from the downstream side
	}
	payload := verif_nondet_bytes(1)
	if fromUp {
		c16Deliver(a, kind, e1.UpstreamPeer, e1.UpstreamID, payload)
	} else {
		c16Deliver(a, kind, e1.DownstreamPeer, e1.DownstreamID, payload)
	}
	verif_reach("C16/transit")
	c16Check(a, e1, e2, kind, fromUp, payload, "C16")
}

// several peers using the same per-connection identifiers toward this transit
func harnessC16TransitCollision() {
	a := c16Agent()
	e1, e2 := c16Tunnels(true)
	a.tcpRelay.Insert(e1)
	a.tcpRelay.Insert(e2)
	verif_reach("C16/transit-collision")
	// what handleStreamData looks at for a frame of tunnel 1 coming from its upstream peer
	up, _ := a.tcpRelay.LookupBoth(e1.UpstreamID)
	verif_assert(up == e1, "C16/colliding-stream-ids-misroute-or-drop-data")
	_, down := a.tcpRelay.LookupBoth(e1.DownstreamID)
	verif_assert(down == e1, "C16/colliding-stream-ids-misroute-or-drop-data")
	if verif_native() {
		return
	}
	c16Log = nil
	payload := verif_nondet_bytes(1)
	a.handleStreamData(e1.UpstreamPeer, &protocol.Frame{Type: protocol.FrameStreamData, StreamID: e1.UpstreamID, Payload: payload})
	ok := len(c16Log) == 1 && c16Log[0].to == e1.DownstreamPeer && c16Log[0].f.StreamID == e1.DownstreamID
	verif_assert(ok, "C16/data-follows-own-tunnel")
}

func harnessC16Witness() {
	a := c16Agent()
	e1, e2 := c16Tunnels(true)
	a.tcpRelay.Insert(e1)
	a.tcpRelay.Insert(e2)
	c16Log = nil
	a.handleStreamData(e1.UpstreamPeer, &protocol.Frame{Type: protocol.FrameStreamData, StreamID: e1.UpstreamID, Payload: []byte{1}})
	if len(c16Log) == 1 {
		verif_assert(false, "witness")
	}
}

// a frame from a peer for which (peer, stream id) is no leg of any tunnel --
// an unrelated neighbour, or a tunnel peer using another identifier that may
// numerically equal an identifier of a tunnel on another connection -- neither
// reaches nor tears down the tunnels
func c16Stranger(kinds []int) {
	a := c16Agent()
	e1, e2 := c16Tunnels(false)
	a.tcpRelay.Insert(e1)
	a.tcpRelay.Insert(e2)
	p := c16Peer(verif_choose(6))
	id := verif_nondet_u64()
	for _, e := range []*relayEntry{e1, e2} {
		verif_assume(!(p == e.UpstreamPeer && id == e.UpstreamID))
		verif_assume(!(p == e.DownstreamPeer && id == e.DownstreamID))
	}
	c16Log = nil
	kind := kinds[verif_choose(len(kinds))]
	c16Deliver(a, kind, p, id, verif_nondet_bytes(1))
	verif_reach("C16/stranger")
	for _, s := range c16Log {
		verif_assert(s.to == p, "C16/frame-of-an-unrelated-peer-forwarded-into-a-tunnel")
	}
	for _, e := range []*relayEntry{e1, e2} {
		u, _ := a.tcpRelay.LookupBoth(e.UpstreamID)
		verif_assert(u == e && a.tcpRelay.LookupDownstream(e.DownstreamID) == e, "C16/frame-of-an-unrelated-peer-tears-a-tunnel-down")
	}
}

func harnessC16StrangerClose() { c16Stranger([]int{1, 2, 3, 4}) }
func harnessC16StrangerData()  { c16Stranger([]int{0}) }

// ---------- C16 for UDP associations and ICMP sessions relayed by this transit ----------

// proto 1: UDP, 2: ICMP. kinds: 0 datagram/echo, 1 close, 3 open refused, 4 open acknowledged
func c16DeliverDgram(a *Agent, proto, kind int, from identity.AgentID, id uint64, payload []byte) {
	if proto == 1 {
		switch kind {
		case 0:
			a.handleUDPDatagram(from, &protocol.Frame{Type: protocol.FrameUDPDatagram, StreamID: id, Payload: payload})
		case 1:
			a.handleUDPClose(from, &protocol.Frame{Type: protocol.FrameUDPClose, StreamID: id, Payload: payload})
		case 3:
			a.handleUDPOpenErr(from, &protocol.Frame{Type: protocol.FrameUDPOpenErr, StreamID: id, Payload: payload})
		case 4:
			a.handleUDPOpenAck(from, &protocol.Frame{Type: protocol.FrameUDPOpenAck, StreamID: id, Payload: payload})
		}
		return
	}
	switch kind {
	case 0:
		a.handleICMPEcho(from, &protocol.Frame{Type: protocol.FrameICMPEcho, StreamID: id, Payload: payload})
	case 1:
		a.handleICMPClose(from, &protocol.Frame{Type: protocol.FrameICMPClose, StreamID: id, Payload: payload})
	case 3:
		a.handleICMPOpenErr(from, &protocol.Frame{Type: protocol.FrameICMPOpenErr, StreamID: id, Payload: payload})
	case 4:
		a.handleICMPOpenAck(from, &protocol.Frame{Type: protocol.FrameICMPOpenAck, StreamID: id, Payload: payload})
	}
}

func c16DgramTable(a *Agent, proto int) *relayTable {
	if proto == 1 {
		return a.udpRelay
	}
	return a.icmpRelay
}

var c16DgramKinds = []int{0, 1, 3, 4}

func c16DgramTransit(proto int, tag string) {
	a := c16Agent()
	t := c16DgramTable(a, proto)
	e1, e2 := c16Tunnels(false)
	t.Insert(e1)
	t.Insert(e2)
	c16Log = nil
	kind := c16DgramKinds[verif_choose(len(c16DgramKinds))]
	fromUp := verif_nondet_bool()
	if kind == 3 || kind == 4 {
		fromUp = false
	}
	payload := verif_nondet_bytes(2)
	if fromUp {
		c16DeliverDgram(a, proto, kind, e1.UpstreamPeer, e1.UpstreamID, payload)
	} else {
		c16DeliverDgram(a, proto, kind, e1.DownstreamPeer, e1.DownstreamID, payload)
	}
	verif_reach(tag + "/transit")
	verif_assert(len(c16Log) == 1, tag+"/frame-forwarded-exactly-once")
	if len(c16Log) == 1 {
		s := c16Log[0]
		if fromUp {
			verif_assert(s.to == e1.DownstreamPeer && s.f.StreamID == e1.DownstreamID, tag+"/forwarded-on-own-downstream-leg")
		} else {
			verif_assert(s.to == e1.UpstreamPeer && s.f.StreamID == e1.UpstreamID, tag+"/forwarded-on-own-upstream-leg")
		}
		verif_assert(len(s.f.Payload) == 2 && s.f.Payload[0] == payload[0] && s.f.Payload[1] == payload[1], tag+"/payload-unchanged")
	}
	u2, _ := t.LookupBoth(e2.UpstreamID)
	verif_assert(u2 == e2 && t.LookupDownstream(e2.DownstreamID) == e2, tag+"/other-tunnel-untouched")
	u1, _ := t.LookupBoth(e1.UpstreamID)
	if kind == 1 || kind == 3 {
		verif_assert(u1 != e1 && t.LookupDownstream(e1.DownstreamID) != e1, tag+"/closed-tunnel-removed")
	} else {
		verif_assert(u1 == e1 && t.LookupDownstream(e1.DownstreamID) == e1, tag+"/live-tunnel-removed")
	}
	// the tables of the other tunnel kinds are not touched
	verif_assert(len(a.tcpRelay.byUpstream) == 0 && len(a.tcpRelay.byDownstream) == 0, tag+"/other-relay-table-touched")
}

func c16DgramStranger(proto int, tag string) {
	a := c16Agent()
	t := c16DgramTable(a, proto)
	e1, e2 := c16Tunnels(false)
	t.Insert(e1)
	t.Insert(e2)
	p := c16Peer(verif_choose(6))
	id := verif_nondet_u64()
	for _, e := range []*relayEntry{e1, e2} {
		verif_assume(!(p == e.UpstreamPeer && id == e.UpstreamID))
		verif_assume(!(p == e.DownstreamPeer && id == e.DownstreamID))
	}
	c16Log = nil
	kind := c16DgramKinds[verif_choose(len(c16DgramKinds))]
	c16DeliverDgram(a, proto, kind, p, id, verif_nondet_bytes(2))
	verif_reach(tag + "/stranger")
	for _, s := range c16Log {
		verif_assert(s.to == p, tag+"/frame-of-an-unrelated-peer-forwarded-into-a-tunnel")
	}
	for _, e := range []*relayEntry{e1, e2} {
		u, _ := t.LookupBoth(e.UpstreamID)
		verif_assert(u == e && t.LookupDownstream(e.DownstreamID) == e, tag+"/frame-of-an-unrelated-peer-tears-a-tunnel-down")
	}
}

func harnessC16TransitUDP()   { c16DgramTransit(1, "C16/udp") }
func harnessC16TransitICMP()  { c16DgramTransit(2, "C16/icmp") }
func harnessC16StrangerUDP()  { c16DgramStranger(1, "C16/udp") }
func harnessC16StrangerICMP() { c16DgramStranger(2, "C16/icmp") }

// ---------- C16: this agent's own UDP association / ICMP session next to tunnels it relays ----------

// The agent is the ingress of its own tunnel (toward next hop c16Peer(4), local
// stream id x) and at the same time relays tunnel e1 of other agents. Stream
// ids are per connection, so x may numerically equal an id of e1. A frame of e1
// (from e1's own leg) is forwarded on e1's other leg and leaves the agent's own
// tunnel alone.
func c16OwnVsRelayed(proto int, tag string) {
	a := c16Agent()
	t := c16DgramTable(a, proto)
	e1 := &relayEntry{UpstreamPeer: c16Peer(verif_choose(2)), UpstreamID: verif_nondet_u64(), DownstreamPeer: c16Peer(2 + verif_choose(2)), DownstreamID: verif_nondet_u64()}
	t.Insert(e1)
	x := verif_nondet_u64()
	next := c16Peer(4)
	var udpDest *udpDestAssociation
	var udpIngress *udpIngressAssociation
	var icmpIngress *icmpIngressAssociation
	if proto == 1 {
		udpDest = &udpDestAssociation{StreamID: x, NextHop: next, OriginKey: "o", PendingOpen: make(chan struct{})}
		udpIngress = &udpIngressAssociation{destAssocs: map[string]*udpDestAssociation{"o": udpDest}}
		a.udpIngressByLocalStream = map[uint64]*udpDestLookup{x: {Ingress: udpIngress, Dest: udpDest}}
	} else {
		icmpIngress = &icmpIngressAssociation{StreamID: x, NextHop: next, PendingOpen: make(chan struct{})}
		a.icmpIngressByStream = map[uint64]*icmpIngressAssociation{x: icmpIngress}
	}
	c16Log = nil
	kind := c16DgramKinds[verif_choose(len(c16DgramKinds))]
	fromUp := verif_nondet_bool()
	if kind == 3 || kind == 4 {
		fromUp = false
	}
	payload := verif_nondet_bytes(2)
	if fromUp {
		c16DeliverDgram(a, proto, kind, e1.UpstreamPeer, e1.UpstreamID, payload)
	} else {
		c16DeliverDgram(a, proto, kind, e1.DownstreamPeer, e1.DownstreamID, payload)
	}
	verif_reach(tag + "/own-vs-relayed")
	ok := len(c16Log) == 1
	if ok {
		s := c16Log[0]
		if fromUp {
			ok = s.to == e1.DownstreamPeer && s.f.StreamID == e1.DownstreamID
		} else {
			ok = s.to == e1.UpstreamPeer && s.f.StreamID == e1.UpstreamID
		}
	}
	verif_assert(ok, tag+"/relayed-frame-not-forwarded-next-to-an-own-tunnel-with-the-same-stream-id")
	if proto == 1 {
		l := a.udpIngressByLocalStream[x]
		verif_assert(l != nil && l.Dest == udpDest && udpIngress.destAssocs["o"] == udpDest, tag+"/relayed-frame-closes-the-agents-own-tunnel")
		opened := false
		select {
		case <-udpDest.PendingOpen:
			opened = true
		default:
		}
		verif_assert(!opened && udpDest.SessionKey == nil, tag+"/relayed-frame-answers-the-agents-own-open")
	} else {
		verif_assert(a.icmpIngressByStream[x] == icmpIngress, tag+"/relayed-frame-closes-the-agents-own-tunnel")
		opened := false
		select {
		case <-icmpIngress.PendingOpen:
			opened = true
		default:
		}
		verif_assert(!opened && icmpIngress.SessionKey == nil, tag+"/relayed-frame-answers-the-agents-own-open")
	}
}

func harnessC16OwnVsRelayedUDP()  { c16OwnVsRelayed(1, "C16/udp") }
func harnessC16OwnVsRelayedICMP() { c16OwnVsRelayed(2, "C16/icmp") }

// The agent's own TCP stream (next hop c16Peer(4), arbitrary local stream id x) and a frame
// from another neighbour that carries the same numeric id, e.g. the late close of a relayed
// tunnel whose entry is already gone (crossing closes): it neither reaches nor ends the
// agent's own stream.
func harnessC16OwnStreamVsStranger() {
	a := c16Agent()
	x := verif_nondet_u64()
	next := c16Peer(4)
	s, err := a.streamMgr.AcceptStream(x, 1, next, "h", 80)
	verif_assert(err == nil && s != nil, "C16/own-stream/setup")
	p := c16Peer(verif_choose(4))
	c16Log = nil
	kind := verif_choose(3)
	c16Deliver(a, kind, p, x, verif_nondet_bytes(1))
	verif_reach("C16/own-stream/stranger")
	verif_assert(a.streamMgr.GetStream(x) == s && s.State() == stream.StateOpen, "C16/own-stream/frame-of-another-peer-ends-the-agents-own-stream")
	verif_assert(len(s.ReadBuffer()) == 0, "C16/own-stream/frame-of-another-peer-delivered-into-the-agents-own-stream")
}
