package agent

import (
	"context"
	"net"

	"github.com/postalsys/muti-metroo/internal/crypto"
	"github.com/postalsys/muti-metroo/internal/identity"
	"github.com/postalsys/muti-metroo/internal/peer"
	"github.com/postalsys/muti-metroo/internal/protocol"
	"github.com/postalsys/muti-metroo/internal/routing"
)

// C03 (agent side): initiator and responder code paths of the agent derive the
// key their counterpart derives.

func c03NextStreamID(c *peer.Connection) uint64 { return 1 }

func c03LookupPort(network, service string) (int, error) { return 443, nil }

// file-transfer responder and ICMP initiator helpers against the reference counterpart
func harnessC03AgentHelpers() {
	id := verif_nondet_u64()
	ipriv, ipub, _ := crypto.GenerateEphemeralKeypair()
	rk, rpub, err := deriveResponderSessionKey(id, ipub)
	verif_reach("C03/agent-helpers")
	verif_assert(err == nil && rk != nil, "C03/responder-helper-refused-honest-key")
	s, err := crypto.ComputeECDH(ipriv, rpub)
	verif_assert(err == nil, "C03/responder-helper-ack-key-refused")
	verif_assert(crypto.DeriveSessionKey(s, id, ipub, rpub, true).Key() == rk.Key(), "C03/file-transfer-responder-key-differs-from-initiator-key")
	var zero [crypto.KeySize]byte
	_, _, err = deriveResponderSessionKey(id, zero)
	verif_assert(err != nil, "C03/responder-helper-accepted-all-zero-key")

	// ICMP initiator
	ipriv2, ipub2, _ := crypto.GenerateEphemeralKeypair()
	rpriv2, rpub2, _ := crypto.GenerateEphemeralKeypair()
	priv := ipriv2
	ik2, err := deriveICMPSessionKey(&priv, ipub2, rpub2, id)
	verif_assert(err == nil && ik2 != nil, "C03/icmp-initiator-refused-honest-key")
	rs, err := crypto.ComputeECDH(rpriv2, ipub2)
	verif_assert(err == nil, "C03/icmp-responder-refused")
	verif_assert(crypto.DeriveSessionKey(rs, id, ipub2, rpub2, false).Key() == ik2.Key(), "C03/icmp-initiator-key-differs-from-responder-key")
}

// TCP stream initiator: the real DialContext with the harness as mesh and exit
func harnessC03DialContext() {
	a := c16Agent()
	a.routeMgr = routing.NewManager(a.id)
	exitID, hop := c16Peer(2), c16Peer(0)
	_, nw, _ := net.ParseCIDR("10.0.0.0/8")
	a.routeMgr.Table().AddRoute(&routing.Route{Network: nw, NextHop: hop, OriginAgent: exitID, Metric: 2, Path: []identity.AgentID{hop, exitID}, Sequence: 1})
	c16Log = nil
	var exitKey *crypto.SessionKey
	var reqID uint64
	go func() {
		// the exit: answer the STREAM_OPEN that was sent to the next hop
		for _, s := range c16Log {
			if s.f.Type != protocol.FrameStreamOpen {
				continue
			}
			open, err := protocol.DecodeStreamOpen(s.f.Payload)
			verif_assert(err == nil && s.to == hop, "C03/open-frame")
			verif_assert(len(open.RemainingPath) == 1 && open.RemainingPath[0] == exitID, "C12/open-follows-recorded-path")
			rpriv, rpub, _ := crypto.GenerateEphemeralKeypair()
			secret, err := crypto.ComputeECDH(rpriv, open.EphemeralPubKey)
			verif_assert(err == nil, "C03/initiator-sent-degenerate-key")
			reqID = open.RequestID
			exitKey = crypto.DeriveSessionKey(secret, open.RequestID, open.EphemeralPubKey, rpub, false)
			ack := &protocol.StreamOpenAck{RequestID: open.RequestID, BoundAddrType: protocol.AddrTypeIPv4, BoundAddr: []byte{1, 2, 3, 4}, BoundPort: 9, EphemeralPubKey: rpub}
			a.handleStreamOpenAck(hop, &protocol.Frame{Type: protocol.FrameStreamOpenAck, StreamID: s.f.StreamID, Payload: ack.Encode()})
		}
	}()
	conn, err := a.DialContext(context.Background(), "tcp", "10.1.2.3:443")
	verif_reach("C03/dial-context")
	verif_assert(err == nil && conn != nil, "C03/dial-failed")
	if err != nil {
		return
	}
	mc := conn.(*meshConn)
	ik := mc.stream.GetSessionKey()
	verif_assert(ik != nil && exitKey != nil, "C03/no-session-key-installed")
	verif_assert(ik.Key() == exitKey.Key(), "C03/ingress-key-differs-from-exit-key")
	_ = reqID
}
