package agent

import (
	"net"

	"github.com/postalsys/muti-metroo/internal/crypto"
	"github.com/postalsys/muti-metroo/internal/identity"
	"github.com/postalsys/muti-metroo/internal/protocol"
	"github.com/postalsys/muti-metroo/internal/routing"
)

// C04: transit agents see only ciphertext of tunnelled application data.
// Non-interference with the ideal AEAD (ciphertext symbols independent of the
// plaintext): no byte of any frame handed to the mesh mentions an application
// byte; transit branches forward payloads unchanged without any key.

func harnessC04Ingress() {
	switch verif_choose(3) {
	case 0: // TCP stream / port forward ingress
		_, c := c07Conn()
		p := verif_nondet_bytes(1 + verif_choose(c04Payload))
		c16Log = nil
		n, err := c.Write(p)
		verif_reach("C04/tcp-ingress")
		verif_assert(err == nil && n == len(p) && len(c16Log) == 1, "C04/tcp-write")
		for _, s := range c16Log {
			verif_assert(verif_taint_free(s.f.Payload, p), "C04/tcp-frame-carries-application-bytes-in-clear")
			verif_assert(len(s.f.Payload) == len(p)+crypto.EncryptionOverhead, "C04/tcp-frame-not-sealed")
		}
	case 1: // ICMP echo ingress
		a := c16Agent()
		ik, _ := c07Keys()
		a.icmpIngressByStream = map[uint64]*icmpIngressAssociation{9: {StreamID: 9, NextHop: c16Peer(0), SessionKey: ik}}
		p := verif_nondet_bytes(1 + verif_choose(c04Payload))
		c16Log = nil
		err := a.RelayICMPEcho(9, verif_nondet_u16(), verif_nondet_u16(), p)
		verif_reach("C04/icmp-ingress")
		verif_assert(err == nil && len(c16Log) == 1, "C04/icmp-relay")
		for _, s := range c16Log {
			verif_assert(verif_taint_free(s.f.Payload, p), "C04/icmp-frame-carries-application-bytes-in-clear")
			echo, err := protocol.DecodeICMPEcho(s.f.Payload)
			verif_assert(err == nil && len(echo.Data) == len(p)+crypto.EncryptionOverhead, "C04/icmp-payload-not-sealed")
		}
	case 2: // SOCKS5 UDP ingress with an established exit path
		verif_set_now(1 << 40) // the 30 s path-setup timeout does not expire during the call
		a := c16Agent()
		a.routeMgr = routing.NewManager(a.id)
		exitID, hop := c16Peer(2), c16Peer(0)
		_, nw, _ := net.ParseCIDR("10.0.0.0/8")
		a.routeMgr.Table().AddRoute(&routing.Route{Network: nw, NextHop: hop, OriginAgent: exitID, Metric: 2, Path: []identity.AgentID{hop, exitID}, Sequence: 1})
		ik, _ := c07Keys()
		done := make(chan struct{})
		close(done)
		dest := &udpDestAssociation{StreamID: 11, ExitPeerID: exitID, NextHop: hop, SessionKey: ik, PendingOpen: done, OriginKey: exitID.String()}
		ing := &udpIngressAssociation{BaseStreamID: 3, destAssocs: map[string]*udpDestAssociation{exitID.String(): dest}}
		a.udpIngressByBase = map[uint64]*udpIngressAssociation{3: ing}
		a.udpIngressByLocalStream = map[uint64]*udpDestLookup{11: {Ingress: ing, Dest: dest}}
		p := verif_nondet_bytes(1 + verif_choose(c04Payload))
		c16Log = nil
		err := a.RelayUDPDatagram(3, nil, 53, protocol.AddrTypeIPv4, []byte{10, 1, 2, 3}, p)
		verif_reach("C04/udp-ingress")
		verif_assert(err == nil && len(c16Log) == 1, "C04/udp-relay")
		for _, s := range c16Log {
			verif_assert(verif_taint_free(s.f.Payload, p), "C04/udp-frame-carries-application-bytes-in-clear")
			dg, err := protocol.DecodeUDPDatagram(s.f.Payload)
			verif_assert(err == nil && len(dg.Data) == len(p)+crypto.EncryptionOverhead, "C04/udp-payload-not-sealed")
		}
	}
}

func harnessC04Witness() {
	p := verif_nondet_bytes(2)
	q := append([]byte{0}, p[1]^1)
	verif_assert(verif_taint_free(q, p), "witness")
}

// a transit forwards the sealed payload unchanged and never touches a key
func harnessC04Transit() {
	a := c16Agent()
	e1, _ := c16Tunnels(false)
	a.tcpRelay.Insert(e1)
	payload := verif_nondet_bytes(2 + crypto.EncryptionOverhead)
	seals := verif_aead_seals()
	c16Log = nil
	a.handleStreamData(e1.UpstreamPeer, &protocol.Frame{Type: protocol.FrameStreamData, StreamID: e1.UpstreamID, Payload: payload})
	verif_reach("C04/transit")
	verif_assert(len(c16Log) == 1, "C04/transit-forward")
	same := len(c16Log) == 1 && len(c16Log[0].f.Payload) == len(payload)
	for i := 0; same && i < len(payload); i++ {
		same = c16Log[0].f.Payload[i] == payload[i]
	}
	verif_assert(same, "C04/transit-altered-payload")
	verif_assert(verif_aead_seals() == seals, "C04/transit-used-a-session-key")
}

// UDP ingress from the first datagram on: the real path set-up
// (getOrCreateDestAssociation, createDestAssociation, handleUDPOpenAck) with the
// harness as mesh and exit. The exit either answers honestly or never answers
// (the set-up times out); in both histories no frame handed to the mesh carries
// application bytes in clear.
func harnessC04UDPSetup() {
	verif_set_now(1 << 40)
	a := c16Agent()
	a.routeMgr = routing.NewManager(a.id)
	exitID, hop := c16Peer(2), c16Peer(0)
	_, nw, _ := net.ParseCIDR("10.0.0.0/8")
	a.routeMgr.Table().AddRoute(&routing.Route{Network: nw, NextHop: hop, OriginAgent: exitID, Metric: 2, Path: []identity.AgentID{hop, exitID}, Sequence: 1})
	ing := &udpIngressAssociation{BaseStreamID: 3, destAssocs: map[string]*udpDestAssociation{}}
	a.udpIngressByBase = map[uint64]*udpIngressAssociation{3: ing}
	a.udpIngressByLocalStream = map[uint64]*udpDestLookup{}
	answers := verif_nondet_bool()
	p := verif_nondet_bytes(2)
	c16Log = nil
	answered := 0
	exit := func() {
		// the exit: answer every UDP_OPEN not answered yet
		for _, s := range c16Log[answered:] {
			answered++
			if s.f.Type != protocol.FrameUDPOpen {
				continue
			}
			open, err := protocol.DecodeUDPOpen(s.f.Payload)
			verif_assert(err == nil, "C04/udp-open-frame")
			rpriv, rpub, _ := crypto.GenerateEphemeralKeypair()
			_, err = crypto.ComputeECDH(rpriv, open.EphemeralPubKey)
			verif_assert(err == nil, "C04/udp-open-carries-a-degenerate-key")
			ack := &protocol.UDPOpenAck{RequestID: open.RequestID, BoundAddrType: protocol.AddrTypeIPv4, BoundAddr: []byte{1, 2, 3, 4}, BoundPort: 9, EphemeralPubKey: rpub}
			a.handleUDPOpenAck(hop, &protocol.Frame{Type: protocol.FrameUDPOpenAck, StreamID: s.f.StreamID, Payload: ack.Encode()})
		}
	}
	for round := 0; round < 2; round++ {
		go a.RelayUDPDatagram(3, nil, 53, protocol.AddrTypeIPv4, []byte{10, 1, 2, 3}, p)
		verif_drain() // blocked waiting for the exit, or done
		if answers {
			exit()
			verif_drain()
		}
		// whatever is still waiting runs into the path set-up timeout
		for i := 0; i < 4 && verif_timers() > 0; i++ {
			verif_fire_timer(0)
			verif_drain()
		}
	}
	verif_reach("C04/udp-setup")
	datagrams := 0
	for _, s := range c16Log {
		verif_assert(verif_taint_free(s.f.Payload, p), "C04/udp-frame-carries-application-bytes-in-clear")
		if s.f.Type == protocol.FrameUDPDatagram {
			datagrams++
			dg, err := protocol.DecodeUDPDatagram(s.f.Payload)
			verif_assert(err == nil && len(dg.Data) == len(p)+crypto.EncryptionOverhead, "C04/udp-payload-not-sealed")
		}
	}
	if answers {
		verif_reach("C04/udp-setup-answered")
		verif_assert(datagrams == 2, "C04/udp-datagrams-not-relayed-after-honest-setup")
	}
}
