package forward

const (
	c20Endpoints = 2
	c20KeyMax    = 2
	c20ReqMax    = 3
)
