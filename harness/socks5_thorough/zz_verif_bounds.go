package socks5

const (
	s5MaxStream     = 26
	s5MaxAuthStream = 18
	s5MaxUsers      = 2
)
