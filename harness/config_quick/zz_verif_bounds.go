package config

const (
	c37MinLen = 0
	c37MaxLen = 4
)
