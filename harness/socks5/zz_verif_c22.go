package socks5

import (
	"context"
	"errors"
	"net"
)

// C22: a UDP association relays only for its own client. The relay socket is
// the harness: ReadFromUDP / WriteToUDP of *net.UDPConn are replaced (props).

type s5Dgram struct {
	src  *net.UDPAddr
	data []byte
}

var (
	c22In    []s5Dgram
	c22Pos   int
	c22Assoc *UDPAssociation
	c22Out   []*net.UDPAddr
)

func c22ReadFromUDP(c *net.UDPConn, b []byte) (int, *net.UDPAddr, error) {
	if c22Pos >= len(c22In) {
		c22Assoc.closed.Store(true) // no more traffic: let the loop end
		return 0, nil, errors.New("harness: socket closed")
	}
	d := c22In[c22Pos]
	c22Pos++
	n := copy(b, d.data)
	return n, d.src, nil
}

func c22WriteToUDP(c *net.UDPConn, b []byte, addr *net.UDPAddr) (int, error) {
	c22Out = append(c22Out, addr)
	return len(b), nil
}

type c22Relay struct {
	s5UDP
	relayed []int // index of the datagram being processed when a relay happened
}

func (r *c22Relay) RelayUDPDatagram(streamID uint64, destAddr net.Addr, destPort uint16, addrType byte, rawAddr []byte, data []byte) error {
	r.relayed = append(r.relayed, c22Pos-1)
	return nil
}

func c22Addr() *net.UDPAddr {
	return &net.UDPAddr{IP: net.IP{10, 0, 0, verif_nondet_u8()}, Port: int(verif_nondet_u16())}
}

func c22Datagram() []byte {
	// RSV RSV FRAG ATYP=IPv4 ADDR(4) PORT(2) DATA(1)
	b := verif_nondet_bytes(11)
	b[2], b[3] = 0, AddrTypeIPv4
	return b
}

func harnessC22Relay() {
	owner := net.IP{10, 0, 0, verif_nondet_u8()} // address of the TCP control connection's peer
	withExpected := verif_nondet_bool()
	ctx, cancel := context.WithCancel(context.Background())
	h := &c22Relay{}
	a := &UDPAssociation{TCPConn: &s5Conn{}, UDPConn: &net.UDPConn{}, Handler: h, StreamID: 7, ctx: ctx, cancel: cancel}
	if withExpected {
		// the client announced the address it will send from (its own)
		a.SetExpectedClientAddr(&net.UDPAddr{IP: owner, Port: int(verif_nondet_u16())})
	}
	c22Assoc, c22Pos, c22Out = a, 0, nil
	n := 1 + verif_choose(2)
	c22In = nil
	for i := 0; i < n; i++ {
		c22In = append(c22In, s5Dgram{src: c22Addr(), data: c22Datagram()})
	}
	a.ReadLoop()
	verif_reach("C22/relay")
	for _, k := range h.relayed {
		fromOwner := c22In[k].src.IP.Equal(owner)
		if withExpected {
			verif_assert(fromOwner, "C22/datagram-from-other-host-relayed-despite-announced-address")
		} else {
			verif_assert(fromOwner, "C22/datagram-from-stranger-relayed-when-no-address-announced")
		}
	}
	// every datagram of the owner is relayed
	for k := range c22In {
		if c22In[k].src.IP.Equal(owner) {
			got := false
			for _, r := range h.relayed {
				got = got || r == k
			}
			verif_assert(got, "C22/owner-datagram-dropped")
		}
	}
	// replies go to the owner only
	a.closed.Store(false)
	err := a.WriteToClient(AddrTypeIPv4, []byte{1, 2, 3, 4}, 53, []byte{9})
	if err == nil {
		verif_reach("C22/reply")
		verif_assert(len(c22Out) == 1, "C22/reply-count")
		if withExpected {
			verif_assert(c22Out[0].IP.Equal(owner), "C22/reply-sent-to-other-host-despite-announced-address")
		} else {
			verif_assert(c22Out[0].IP.Equal(owner), "C22/reply-sent-to-first-sender-not-owner")
		}
	}
}

func harnessC22Witness() {
	ctx, cancel := context.WithCancel(context.Background())
	h := &c22Relay{}
	a := &UDPAssociation{TCPConn: &s5Conn{}, UDPConn: &net.UDPConn{}, Handler: h, StreamID: 7, ctx: ctx, cancel: cancel}
	c22Assoc, c22Pos, c22Out = a, 0, nil
	c22In = []s5Dgram{{src: c22Addr(), data: c22Datagram()}}
	a.ReadLoop()
	if len(h.relayed) == 1 {
		verif_assert(false, "witness")
	}
}

// ---- the association is created with the address the client announced ----

type c22Creator struct {
	s5UDP
	created int
	client  *net.UDPAddr
}

func (u *c22Creator) IsUDPEnabled() bool { return true }
func (u *c22Creator) CreateUDPAssociation(ctx context.Context, clientAddr *net.UDPAddr) (uint64, error) {
	u.created++
	u.client = clientAddr
	return 0, errors.New("harness: association recorded")
}

var c22NewAssoc *UDPAssociation

// replacement for NewUDPAssociation (no socket in the model)
func c22NewUDPAssociation(tcpConn net.Conn, handler UDPAssociationHandler, bindIP net.IP) (*UDPAssociation, error) {
	ctx, cancel := context.WithCancel(context.Background())
	c22NewAssoc = &UDPAssociation{TCPConn: tcpConn, Handler: handler, ctx: ctx, cancel: cancel}
	return c22NewAssoc, nil
}

// a UDP ASSOCIATE request that names a concrete client address makes the
// relay filter on that address, whatever port it names
func harnessC22Associate() {
	u := &c22Creator{}
	h := NewHandler([]Authenticator{&NoAuthAuthenticator{}}, &s5Dialer{})
	h.SetUDPHandler(u)
	ip := verif_nondet_bytes(4)
	port := verif_nondet_u16()
	in := []byte{5, 1, 0, 5, CmdUDPAssociate, 0, AddrTypeIPv4, ip[0], ip[1], ip[2], ip[3], byte(port >> 8), byte(port)}
	c22NewAssoc = nil
	c := &s5Conn{in: in}
	h.Handle(c)
	verif_reach("C22/associate")
	verif_assert(u.created == 1 && c22NewAssoc != nil, "C22/associate-not-processed")
	if c22NewAssoc == nil {
		return
	}
	unspecified := ip[0] == 0 && ip[1] == 0 && ip[2] == 0 && ip[3] == 0
	exp := c22NewAssoc.ExpectedClientAddr
	if unspecified {
		return
	}
	verif_reach("C22/associate-announced")
	verif_assert(exp != nil && u.client != nil, "C22/announced-client-address-not-enforced")
	if exp != nil {
		verif_assert(len(exp.IP) >= 4 && exp.IP[len(exp.IP)-4] == ip[0] && exp.IP[len(exp.IP)-1] == ip[3] && exp.Port == int(port), "C22/announced-client-address-altered")
	}
}
