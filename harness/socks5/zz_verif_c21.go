package socks5

import (
	"context"
	"errors"
	"golang.org/x/crypto/bcrypt"
	"io"
	"net"
	"strconv"
	"time"
)

// C21 / C23: the SOCKS5 handler over an arbitrary client byte stream.

type s5Addr struct{}

func (s5Addr) Network() string { return "tcp" }
func (s5Addr) String() string  { return "client" }

// s5Conn: a net.Conn whose input is the harness byte stream (then EOF) and
// whose writes are recorded one record per Write call.
type s5Conn struct {
	in  []byte
	pos int
	out [][]byte
	cut int // segment boundary: a Read never returns bytes from both sides of it (0: none)
}

func (c *s5Conn) Read(p []byte) (int, error) {
	if c.pos >= len(c.in) {
		return 0, io.EOF
	}
	avail := c.in[c.pos:]
	if c.cut > c.pos && c.cut < len(c.in) {
		avail = c.in[c.pos:c.cut]
	}
	n := copy(p, avail)
	c.pos += n
	return n, nil
}
func (c *s5Conn) Write(p []byte) (int, error) {
	c.out = append(c.out, append([]byte{}, p...))
	return len(p), nil
}
func (c *s5Conn) Close() error                       { return nil }
func (c *s5Conn) LocalAddr() net.Addr                { return s5Addr{} }
func (c *s5Conn) RemoteAddr() net.Addr               { return s5Addr{} }
func (c *s5Conn) SetDeadline(t time.Time) error      { return nil }
func (c *s5Conn) SetReadDeadline(t time.Time) error  { return nil }
func (c *s5Conn) SetWriteDeadline(t time.Time) error { return nil }
func (c *s5Conn) NoDeadlineMonitor() bool            { return true }

type s5Dialer struct {
	dials int
	addr  string
}

func (d *s5Dialer) Dial(network, address string) (net.Conn, error) {
	return d.DialContext(context.Background(), network, address)
}
func (d *s5Dialer) DialContext(ctx context.Context, network, address string) (net.Conn, error) {
	d.dials++
	d.addr = address
	return nil, errors.New("harness: dial recorded")
}

type s5UDP struct{ asked int }

func (u *s5UDP) CreateUDPAssociation(ctx context.Context, clientAddr *net.UDPAddr) (uint64, error) {
	return 0, errors.New("harness")
}
func (u *s5UDP) SetSOCKS5UDPAssociation(streamID uint64, assoc *UDPAssociation) {}
func (u *s5UDP) RelayUDPDatagram(streamID uint64, destAddr net.Addr, destPort uint16, addrType byte, rawAddr []byte, data []byte) error {
	return nil
}
func (u *s5UDP) CloseUDPAssociation(streamID uint64) {}
func (u *s5UDP) IsUDPEnabled() bool                  { u.asked++; return false }

type s5ICMP struct{ asked int }

func (u *s5ICMP) CreateICMPSession(ctx context.Context, destIP net.IP) (uint64, error) {
	return 0, errors.New("harness")
}
func (u *s5ICMP) SetSOCKS5ICMPAssociation(streamID uint64, assoc *ICMPAssociation) {}
func (u *s5ICMP) RelayICMPEcho(streamID uint64, identifier, sequence uint16, payload []byte) error {
	return nil
}
func (u *s5ICMP) CloseICMPSession(streamID uint64) {}
func (u *s5ICMP) IsICMPEnabled() bool              { u.asked++; return false }

func s5Handler(auths []Authenticator) (*Handler, *s5Dialer, *s5UDP, *s5ICMP) {
	d, u, ic := &s5Dialer{}, &s5UDP{}, &s5ICMP{}
	h := NewHandler(auths, d)
	h.SetUDPHandler(u)
	h.SetICMPHandler(ic)
	return h, d, u, ic
}

// ---------- C23 ----------

// every reply written is 05 rep 00 atyp addr port with len(addr) matching atyp
func s5WellFormedReply(b []byte) bool {
	if len(b) < 4 || b[0] != 5 || b[2] != 0 {
		return false
	}
	switch b[3] {
	case AddrTypeIPv4:
		return len(b) == 4+4+2
	case AddrTypeIPv6:
		return len(b) == 4+16+2
	}
	return false
}

func harnessC23Stream() {
	h, d, u, ic := s5Handler([]Authenticator{&NoAuthAuthenticator{}})
	n := verif_choose(s5MaxStream + 1)
	in := verif_nondet_bytes(n)
	// skeleton of a no-auth greeting so that the request bytes are reachable within the bound;
	// truncated and malformed greetings are covered by harnessC23Greeting
	if n >= 3 {
		verif_assume(in[0] == 5 && in[1] == 1 && in[2] == 0)
	}
	// the stream arrives in two segments split at an arbitrary position (or in one piece)
	c := &s5Conn{in: in, cut: verif_choose(n + 1)}
	err := h.Handle(c)
	verif_reach("C23/stream")
	// replies: first record is the method selection, any later record is a reply
	for i, w := range c.out {
		if i == 0 {
			verif_assert(len(w) == 2 && w[0] == 5, "C23/method-selection-malformed")
			continue
		}
		verif_assert(s5WellFormedReply(w), "C23/reply-malformed")
	}
	verif_assert(d.dials <= 1, "C23/more-than-one-dial")
	if n >= 7 && in[0] == 5 && in[1] == 1 && in[2] == 0 && in[3] == 5 {
		req := in[3:]
		atyp := req[3]
		if atyp != AddrTypeIPv4 && atyp != AddrTypeIPv6 && atyp != AddrTypeDomain {
			verif_assert(err != nil && len(c.out) == 2 && c.out[1][1] == ReplyAddrNotSupported, "C23/unsupported-address-type-reply")
			verif_assert(d.dials == 0 && u.asked == 0 && ic.asked == 0, "C23/unsupported-address-type-executed")
		}
	}
	if d.dials == 1 {
		verif_reach("C23/dialled")
		// the request that was fully present in the stream
		req := in[3:]
		verif_assert(len(req) >= 4 && req[0] == 5 && req[1] == CmdConnect, "C23/dial-without-connect-request")
		var want string
		switch req[3] {
		case AddrTypeIPv4:
			verif_assert(len(req) >= 10, "C23/dial-on-truncated-request")
			want = net.JoinHostPort(net.IP(req[4:8]).String(), strconv.Itoa(int(uint16(req[8])<<8|uint16(req[9]))))
		case AddrTypeIPv6:
			verif_assert(len(req) >= 22, "C23/dial-on-truncated-request")
			want = net.JoinHostPort(net.IP(req[4:20]).String(), strconv.Itoa(int(uint16(req[20])<<8|uint16(req[21]))))
		case AddrTypeDomain:
			l := int(req[4])
			verif_assert(len(req) >= 5+l+2 && l > 0, "C23/dial-on-truncated-request")
			want = net.JoinHostPort(string(req[5:5+l]), strconv.Itoa(int(uint16(req[5+l])<<8|uint16(req[6+l]))))
		default:
			verif_assert(false, "C23/dial-with-unsupported-address-type")
		}
		verif_assert(d.addr == want, "C23/dialled-address-differs-from-request")
	}
	// unsupported command: reply 07, nothing executed
	if n >= 3+4 && err != nil && d.dials == 0 && u.asked == 0 && ic.asked == 0 && len(c.out) == 2 {
		req := in[3:]
		if req[0] == 5 && req[1] != CmdConnect && req[1] != CmdUDPAssociate && req[1] != CmdICMPEcho && c.out[1][1] != ReplyAddrNotSupported && c.out[1][1] != ReplyServerFailure {
			verif_assert(c.out[1][1] == ReplyCmdNotSupported, "C23/unsupported-command-reply")
		}
	}
}

// arbitrary greeting bytes (every truncation, version and method list)
func harnessC23Greeting() {
	h, d, u, ic := s5Handler([]Authenticator{&NoAuthAuthenticator{}})
	n := verif_choose(6)
	in := verif_nondet_bytes(n)
	c := &s5Conn{in: in}
	err := h.Handle(c)
	verif_reach("C23/greeting")
	verif_assert(err != nil, "C23/short-stream-succeeds")
	verif_assert(d.dials == 0 && u.asked == 0 && ic.asked == 0, "C23/command-executed-on-incomplete-request")
	for _, w := range c.out {
		verif_assert(len(w) == 2 && w[0] == 5, "C23/greeting-reply-malformed")
	}
}

// ---------- C21 ----------

func s5Str(max int) string { return verif_nondet_string(verif_choose(max + 1)) }

func harnessC21Auth() {
	// authentication enabled and required, 0..2 users, plaintext or hashed, possibly unusable
	cfg := AuthConfig{Enabled: true, Required: true, Users: map[string]string{}, HashedUsers: map[string]string{}}
	nu := verif_choose(s5MaxUsers + 1)
	var names, pws, hashes [2]string
	for i := 0; i < nu; i++ {
		names[i] = s5Str(1)
		switch verif_choose(3) {
		case 0:
			pws[i] = verif_nondet_string(1)
			cfg.Users[names[i]] = pws[i]
		case 1:
			hashes[i] = verif_nondet_string(1)
			cfg.HashedUsers[names[i]] = hashes[i]
		}
		// case 2: a user without a usable password (skipped by buildSOCKS5Auth)
	}
	h, d, u, ic := s5Handler(CreateAuthenticators(cfg))
	n := verif_choose(s5MaxAuthStream + 1)
	in := verif_nondet_bytes(n)
	c := &s5Conn{in: in}
	h.Handle(c)
	verif_reach("C21/auth")
	executed := d.dials > 0 || u.asked > 0 || ic.asked > 0
	if !executed {
		return
	}
	verif_reach("C21/executed")
	// the stream must contain a username/password sub-negotiation accepted for a configured user
	verif_assert(len(c.out) >= 2 && len(c.out[0]) == 2 && c.out[0][1] == AuthMethodUserPass, "C21/command-executed-without-authentication")
	verif_assert(len(c.out[1]) == 2 && c.out[1][0] == 1 && c.out[1][1] == AuthStatusSuccess, "C21/command-executed-after-failed-authentication")
	// locate the credentials in the stream: greeting is 05 n methods
	g := 2 + int(in[1])
	uLen := int(in[g+1])
	user := string(in[g+2 : g+2+uLen])
	pLen := int(in[g+2+uLen])
	pass := string(in[g+3+uLen : g+3+uLen+pLen])
	ok := false
	if len(cfg.HashedUsers) > 0 {
		// reference: the user has a stored hash and bcrypt reports a match (nil); any error,
		// also "malformed hash", is a refusal
		if hash, has := cfg.HashedUsers[user]; has {
			ok = bcrypt.CompareHashAndPassword([]byte(hash), []byte(pass)) == nil
		}
	} else {
		for k, v := range cfg.Users {
			ok = ok || (k == user && v == pass)
		}
	}
	verif_assert(ok, "C21/credentials-do-not-match-a-configured-user")
}

func harnessC21Witness() {
	h, d, _, _ := s5Handler(CreateAuthenticators(AuthConfig{Enabled: true, Required: true, Users: map[string]string{"u": "p"}}))
	c := &s5Conn{in: verif_nondet_bytes(8 + 10)}
	h.Handle(c)
	if d.dials == 1 {
		verif_assert(false, "witness")
	}
}

// ---------- C23: the success reply ----------

type s5Target struct {
	s5Conn
	local net.IP
}

func (t *s5Target) LocalAddr() net.Addr { return &net.TCPAddr{IP: t.local, Port: 4321} }

type s5OKDialer struct {
	s5Dialer
	target *s5Target
}

func (d *s5OKDialer) Dial(network, address string) (net.Conn, error) {
	return d.DialContext(context.Background(), network, address)
}
func (d *s5OKDialer) DialContext(ctx context.Context, network, address string) (net.Conn, error) {
	d.dials++
	d.addr = address
	return d.target, nil
}

// a successful CONNECT is answered by one well-formed reply whose bound address
// is the target's local address, in whatever form that address is held
// (4-byte, 16-byte IPv4, IPv6)
func harnessC23Connect() {
	var local net.IP
	switch verif_choose(3) {
	case 0:
		local = net.IP{10, 0, 0, verif_nondet_u8()}
	case 1:
		local = net.IP{0, 0, 0, 0, 0, 0, 0, 0, 0, 0, 0xff, 0xff, 10, 0, 0, 5} // 16-byte form of an IPv4 address
	case 2:
		local = net.IP{0x20, 1, 0, 0, 0, 0, 0, 0, 0, 0, 0, 0, 0, 0, 0, verif_nondet_u8()}
	}
	d := &s5OKDialer{target: &s5Target{local: local}}
	h := NewHandler([]Authenticator{&NoAuthAuthenticator{}}, d)
	in := []byte{5, 1, 0, 5, CmdConnect, 0, AddrTypeIPv4, 192, 0, 2, verif_nondet_u8(), 0x1f, 0x90}
	c := &s5Conn{in: in}
	h.Handle(c)
	verif_reach("C23/connect")
	verif_assert(d.dials == 1, "C23/connect-not-dialled")
	verif_assert(len(c.out) >= 2, "C23/connect-not-answered")
	if len(c.out) < 2 {
		return
	}
	r := c.out[1]
	verif_assert(s5WellFormedReply(r) && r[1] == ReplySucceeded, "C23/reply-malformed")
	if !s5WellFormedReply(r) {
		return
	}
	if v4 := local.To4(); v4 != nil {
		verif_assert(r[3] == AddrTypeIPv4 && r[4] == v4[0] && r[7] == v4[3], "C23/reply-bound-address-wrong")
		verif_assert(r[8] == 0x10 && r[9] == 0xe1, "C23/reply-bound-port-wrong")
	} else {
		verif_assert(r[3] == AddrTypeIPv6 && r[4] == local[0] && r[19] == local[15], "C23/reply-bound-address-wrong")
	}
}
