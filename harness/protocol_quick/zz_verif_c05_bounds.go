package protocol

// extra bytes beyond the minimum message length explored by the totality harnesses (quick tier)
const (
	c05XFrame     = 3
	c05XPeerHello = 4
	c05XOpen      = 4
	c05XAck       = 17
	c05XErr       = 3
	c05XAdv       = 6
	c05XWd        = 8
	c05XEnc       = 18
	c05XNodeInfo  = 1
	c05XNIA       = 1
	c05XCtl       = 4
	c05XDgram     = 8
	c05XIcmpOpen  = 4
	c05XIcmpEcho  = 6
	c05XSleep     = 17
	c05XQueued    = 6
)
