package peer

import (
	"errors"

	"github.com/postalsys/muti-metroo/internal/identity"
	"github.com/postalsys/muti-metroo/internal/protocol"
)

// C32: one live connection per peer; tearing down a connection that is no
// longer the registered one never harms the live one.
// readLoop and keepaliveLoop are replaced by harness recorders (props); the
// harness plays their role by reporting disconnects itself, in any order.

var c32Loops []*Connection

func c32ReadLoop(m *Manager, c *Connection)      { c32Loops = append(c32Loops, c); m.wg.Done() }
func c32KeepaliveLoop(m *Manager, c *Connection) { m.wg.Done() }

type c32Peer struct{ closed int }

func (p *c32Peer) Close() error { p.closed++; return nil }

func c32Conn(id identity.AgentID) *Connection {
	c := &Connection{RemoteID: id, closed: make(chan struct{})}
	c.cancel = func() {}
	c.conn = nil
	return c
}

// replacement for (*Connection).Close: the transport is not modelled. The hook lets the
// harness make other things happen while a caller is in the middle of closing connections.
var c32CloseHook func(c *Connection)

func c32Close(c *Connection) error {
	c.closeOnce.Do(func() { close(c.closed) })
	if c32CloseHook != nil {
		c32CloseHook(c)
	}
	return nil
}

func harnessC32Registration() {
	var id identity.AgentID
	id[0] = 7
	var events []string
	var registered *Connection // ghost: the connection the manager should consider live
	var harmed bool
	m := NewManager(ManagerConfig{LocalID: identity.AgentID{1}, OnPeerDisconnect: func(c *Connection, err error) {
		// the agent cleans routes and relays of c.RemoteID: harmful if another connection is live
		if registered != nil && registered != c {
			harmed = true
		}
		events = append(events, "disconnect")
	}, OnFrame: func(c *Connection, f *protocol.Frame) {}})
	conns := [2]*Connection{c32Conn(id), c32Conn(id)}
	c32Loops = nil
	for step := 0; step < c32Steps; step++ {
		k := verif_choose(2)
		c := conns[k]
		if verif_nondet_bool() {
			// a connection attempt completes its handshake (simultaneous dials, reconnects)
			select {
			case <-c.closed:
				continue // a closed connection is never registered again
			default:
			}
			m.registerConnection(c)
			if registered == nil {
				registered = c
			}
		} else {
			// read error or keepalive timeout reported for this connection (possibly twice, possibly stale)
			if registered == c {
				registered = nil
			}
			c32Close(c)
			m.handleDisconnect(c, errors.New("read error"))
		}
		verif_drain()
		verif_assert(!harmed, "C32/stale-teardown-reported-live-peer-as-disconnected")
		got := m.GetPeer(id)
		verif_assert(got == registered, "C32/registration-differs-from-live-connection")
	}
	verif_reach("C32/registration")
	// frames are only ever read from connections that were registered
	for _, l := range c32Loops {
		verif_assert(l == conns[0] || l == conns[1], "C32/read-loop-for-unknown-connection")
	}
	n := 0
	for _, l := range c32Loops {
		if l == conns[0] {
			n++
		}
	}
	verif_assert(n <= 1, "C32/read-loop-started-twice-for-one-connection")
}

func harnessC32Witness() {
	var id identity.AgentID
	id[0] = 7
	calls := 0
	m := NewManager(ManagerConfig{LocalID: identity.AgentID{1}, OnPeerDisconnect: func(c *Connection, err error) { calls++ }})
	c := c32Conn(id)
	m.registerConnection(c)
	m.handleDisconnect(c, errors.New("x"))
	if calls == 1 && m.GetPeer(id) == nil {
		verif_assert(false, "witness")
	}
}

// DisconnectAll (sleep entry, end of a poll) closes several connections one after
// the other; a peer whose connection is already closed may reconnect before the
// loop has finished. That new, live connection stays the registered one.
func harnessC32DisconnectAll() {
	var idA, idB identity.AgentID
	idA[0], idB[0] = 7, 8
	m := NewManager(ManagerConfig{LocalID: identity.AgentID{1}, OnPeerDisconnect: func(c *Connection, err error) {}, OnFrame: func(c *Connection, f *protocol.Frame) {}})
	a, b := c32Conn(idA), c32Conn(idB)
	m.registerConnection(a)
	m.registerConnection(b)
	var fresh *Connection
	closedSoFar := 0
	c32CloseHook = func(c *Connection) {
		closedSoFar++
		if fresh != nil || !verif_nondet_bool() {
			return
		}
		// the read loop of the connection just closed reports it, and the peer is back at once
		m.handleDisconnect(c, errors.New("closed"))
		fresh = c32Conn(c.RemoteID)
		m.registerConnection(fresh)
	}
	m.DisconnectAll()
	c32CloseHook = nil
	verif_drain()
	verif_reach("C32/disconnect-all")
	verif_assert(closedSoFar == 2, "C32/disconnect-all-did-not-close-every-connection")
	if fresh != nil {
		verif_reach("C32/reconnect-during-disconnect-all")
		select {
		case <-fresh.closed:
			// closing it as well would be acceptable; then it must not stay registered
			verif_assert(m.GetPeer(fresh.RemoteID) != fresh, "C32/closed-connection-still-registered")
		default:
			verif_assert(m.GetPeer(fresh.RemoteID) == fresh, "C32/registration-differs-from-live-connection")
		}
	}
}
