package peer

import "github.com/postalsys/muti-metroo/internal/transport"

// C38 at the layer the agent uses: Connection.NextStreamID called from two
// goroutines, every interleaving at atomic-operation granularity.
func harnessC38Connection() {
	dialer := verif_nondet_bool()
	c := &Connection{streamAlloc: transport.NewStreamIDAllocator(dialer)}
	var a, b, a2 uint64
	done := 0
	go func() {
		a = c.NextStreamID()
		a2 = c.NextStreamID()
		done++
	}()
	b = c.NextStreamID()
	verif_drain()
	verif_reach("C38/connection")
	verif_assert(done == 1, "C38/allocation-did-not-finish")
	verif_assert(a != b && a2 != b && a != a2, "C38/connection-hands-out-an-identifier-twice")
	odd := func(x uint64) bool { return x%2 == 1 }
	verif_assert(a != 0 && b != 0 && a2 != 0, "C38/zero-identifier")
	verif_assert(odd(a) == dialer && odd(b) == dialer && odd(a2) == dialer, "C38/identifier-parity-does-not-match-the-role")
}
