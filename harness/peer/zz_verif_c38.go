package peer

import (
	"context"
	"net"

	"github.com/postalsys/muti-metroo/internal/identity"
	"github.com/postalsys/muti-metroo/internal/protocol"
	"github.com/postalsys/muti-metroo/internal/transport"
)

type c38PeerConn struct{ dialer bool }

func (c *c38PeerConn) OpenStream(ctx context.Context) (transport.Stream, error)   { return nil, nil }
func (c *c38PeerConn) AcceptStream(ctx context.Context) (transport.Stream, error) { return nil, nil }
func (c *c38PeerConn) Close() error                                               { return nil }
func (c *c38PeerConn) LocalAddr() net.Addr                                        { return nil }
func (c *c38PeerConn) RemoteAddr() net.Addr                                       { return nil }
func (c *c38PeerConn) IsDialer() bool                                             { return c.dialer }
func (c *c38PeerConn) TransportType() transport.TransportType                     { return "" }

// C38 at the layer the agent uses: Connection.NextStreamID called from two
// goroutines, every interleaving at atomic-operation granularity.
func harnessC38Connection() {
	dialer := verif_nondet_bool()
	// a fresh connection as the manager creates it: the first allocations may already race
	verif_sched_explore(false) // set-up is not part of the explored schedule
	c := NewConnection(&c38PeerConn{dialer: dialer}, DefaultConnectionConfig(identity.AgentID{1}))
	verif_drain()
	verif_sched_explore(true)
	var a, b, a2 uint64
	done := 0
	go func() {
		a = c.NextStreamID()
		a2 = c.NextStreamID()
		done++
	}()
	// the connection may change state (handshake done, peer gone) while allocations race
	switch verif_choose(3) {
	case 1:
		c.SetState(StateConnected)
	case 2:
		c.SetState(StateDisconnected)
	}
	b = c.NextStreamID()
	verif_drain()
	verif_reach("C38/connection")
	verif_assert(done == 1, "C38/allocation-did-not-finish")
	verif_assert(a != b && a2 != b && a != a2, "C38/connection-hands-out-an-identifier-twice")
	odd := func(x uint64) bool { return x%2 == 1 }
	verif_assert(a != 0 && b != 0 && a2 != 0, "C38/zero-identifier")
	verif_assert(odd(a) == dialer && odd(b) == dialer && odd(a2) == dialer, "C38/identifier-parity-does-not-match-the-role")
}

// the frame dispatch goroutines a connection starts are irrelevant here (replaced, see props)
func c38NoDrain(c *Connection, ch <-chan *protocol.Frame) {}
