package peer

import (
	"errors"
	"time"
)

// C31: reconnection respects pause and bounded exponential backoff.

// (a) pause: re-entrant adversary. The connect callback may fail or succeed and
// may itself pause or resume; between events the harness pauses, resumes,
// schedules, or fires any pending timer (a fired timer's goroutine runs when the
// harness lets it: before or after a Pause).
func harnessC31Pause() {
	cfg := ReconnectConfig{InitialDelay: time.Second, MaxDelay: 8 * time.Second, Multiplier: 2, Jitter: 0}
	paused := false // ghost: true between a completed Pause and the next completed Resume
	var r *Reconnector
	attempts := 0
	r = NewReconnector(cfg, func(addr string) error {
		verif_assert(!paused, "C31/attempt-started-while-paused")
		attempts++
		switch verif_choose(3) {
		case 1: // the agent goes to sleep while the attempt is in flight
			r.Pause()
			paused = true
		}
		if verif_nondet_bool() {
			return errors.New("connect failed")
		}
		return nil
	})
	r.Schedule("a")
	for step := 0; step < c31Steps; step++ {
		switch verif_choose(5) {
		case 0:
			r.Pause()
			paused = true
		case 1:
			r.Resume()
			paused = false
		case 2:
			r.Schedule("a")
		case 3:
			n := verif_timers()
			if n > 0 {
				verif_fire_timer(verif_choose(n))
			}
		case 4:
			verif_drain() // let fired timers' goroutines run
		}
	}
	verif_drain()
	verif_reach("C31/pause")
	if attempts > 0 {
		verif_reach("C31/attempted")
	}
}

// (b) backoff: the delay armed before the k-th consecutive retry lies within the
// configured jitter of min(initial * multiplier^k, max). The jitter phase
// (now mod 1000) is case-split at its extremes: the expression is
// affine in it.
func harnessC31Backoff() {
	var cfg ReconnectConfig
	switch verif_choose(3) {
	case 0:
		cfg = DefaultReconnectConfig()
	case 1:
		cfg = ReconnectConfig{InitialDelay: 500 * time.Millisecond, MaxDelay: 10 * time.Second, Multiplier: 1.5, Jitter: 0.1}
	case 2:
		cfg = ReconnectConfig{InitialDelay: 2 * time.Second, MaxDelay: 5 * time.Second, Multiplier: 3, Jitter: 0.5}
	}
	phases := [...]int64{0, 999}
	r := NewReconnector(cfg, func(addr string) error { return errors.New("fail") })
	base := int64(1700000000) * int64(time.Second)
	verif_set_now(base + phases[verif_choose(2)])
	r.Schedule("a")
	want := float64(cfg.InitialDelay)
	for k := 0; k < 7; k++ {
		verif_assert(verif_timers() == 1, "C31/one-timer-per-peer")
		d := float64(verif_timer_dur(0))
		lo, hi := want*(1-cfg.Jitter), want*(1+cfg.Jitter)
		verif_assert(d >= lo-1 && d <= hi+1, "C31/retry-delay-outside-jittered-backoff")
		calc := NewBackoffCalculator(cfg).CalculateDelay(k)
		verif_assert(float64(calc) >= want-1 && float64(calc) <= want+1, "C31/backoff-calculator-differs")
		// next failure
		verif_set_now(base + int64(k+1)*int64(time.Minute) + phases[verif_choose(2)])
		verif_fire_timer(0)
		verif_drain()
		want = want * cfg.Multiplier
		if want > float64(cfg.MaxDelay) {
			want = float64(cfg.MaxDelay)
		}
	}
	verif_reach("C31/backoff")
}

func harnessC31Witness() {
	n := 0
	r := NewReconnector(ReconnectConfig{InitialDelay: time.Second, MaxDelay: time.Minute, Multiplier: 2}, func(addr string) error { n++; return nil })
	r.Schedule("a")
	verif_fire_timer(0)
	verif_drain()
	if n == 1 {
		verif_assert(false, "witness")
	}
}

// (c) a successful reconnection ends the failure run: the next failure run starts
// again at the initial delay -- also when the agent was paused while the
// successful attempt was in flight
func harnessC31SuccessResets() {
	cfg := ReconnectConfig{InitialDelay: time.Second, MaxDelay: time.Minute, Multiplier: 2, Jitter: 0}
	var r *Reconnector
	fails := 2
	pauseInFlight := verif_nondet_bool()
	paused := false
	r = NewReconnector(cfg, func(addr string) error {
		if fails > 0 {
			fails--
			return errors.New("connect failed")
		}
		if pauseInFlight {
			r.Pause() // the agent goes to sleep while the attempt is in flight
			paused = true
		}
		return nil // the peer is back
	})
	r.Schedule("a")
	for i := 0; i < 3; i++ {
		verif_assert(verif_timers() == 1, "C31/one-timer-per-peer")
		verif_fire_timer(0)
		verif_drain()
	}
	verif_assert(fails == 0, "C31/attempts-not-made")
	if paused {
		r.Resume()
	}
	// the connection is lost again later: a new failure run
	r.Schedule("a")
	verif_reach("C31/success-resets")
	verif_assert(verif_timers() == 1, "C31/one-timer-per-peer")
	if verif_timers() == 1 {
		verif_assert(verif_timer_dur(0) == int64(cfg.InitialDelay), "C31/backoff-not-reset-by-a-successful-reconnection")
	}
}
