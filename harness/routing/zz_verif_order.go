package routing

import (
	"net"

	"github.com/postalsys/muti-metroo/internal/identity"
)

// C08 / C09 (lowest metric after updates): three accepted or refused
// announcements for ONE key from up to three origins, with symbolic metrics and
// sequence numbers (so the third can be a re-announcement with a worse metric
// of the currently best origin), then a lookup. The general bounded histories
// (harnessC08History, harnessC09*) vary the key as well and are registered at
// two operations in the quick tier, which cannot order three routes.

type cOrdGhost struct {
	metric uint16
	seq    uint64
	hop    int
	live   bool
}

// the ghost per origin follows the documented replace rule
func cOrdStep(g *[3]cOrdGhost, o, hop int, metric uint16, seq uint64, ok bool, tag string) {
	want := !g[o].live || seq > g[o].seq || (seq == g[o].seq && metric < g[o].metric)
	verif_assert(ok == want, tag)
	if ok {
		g[o] = cOrdGhost{metric: metric, seq: seq, hop: hop, live: true}
	}
}

// loss of peer p: exactly the entries learned through p go
func cOrdPeerLoss(g *[3]cOrdGhost, p int) int {
	n := 0
	for i := range g {
		if g[i].live && g[i].hop == p {
			g[i].live = false
			n++
		}
	}
	return n
}

func cOrdBest(g *[3]cOrdGhost) (uint16, bool) {
	best, any := uint16(0), false
	for i := range g {
		if g[i].live && (!any || g[i].metric < best) {
			best, any = g[i].metric, true
		}
	}
	return best, any
}

// one withdrawal or peer loss after the announcements (or none): which origin's entry goes
func cOrdRemoval(g *[3]cOrdGhost) (how int, o int) {
	how = verif_choose(3) // 0 nothing, 1 withdraw by origin, 2 loss of the next-hop peer
	if how != 0 {
		o = verif_choose(3)
	}
	return how, o
}

// the route of origin o arrives through an arbitrary neighbour (several origins may share one)
func cOrdIDs(o int) (identity.AgentID, identity.AgentID, []identity.AgentID, int) {
	origin := c08ID(o)
	h := o // directly from the origin ...
	if verif_nondet_bool() {
		h = 0 // ... or relayed by neighbour 0, which several origins may share
	}
	hop := c08ID(h)
	if h == o {
		return origin, hop, []identity.AgentID{origin}, h
	}
	return origin, hop, []identity.AgentID{hop, origin}, h
}

func harnessC08Order() {
	t := NewTable(c08ID(3))
	nw := &net.IPNet{IP: net.IP{10, 1, 0, 0}, Mask: net.CIDRMask(16, 32)}
	var g [3]cOrdGhost
	for i := 0; i < cOrdAdds; i++ {
		o := verif_choose(3)
		origin, hop, path, h := cOrdIDs(o)
		metric, seq := verif_nondet_u16(), verif_nondet_u64()
		ok := t.AddRoute(&Route{Network: nw, NextHop: hop, OriginAgent: origin, Metric: metric, Sequence: seq, Path: path})
		cOrdStep(&g, o, h, metric, seq, ok, "C10/cidr-replace-rule")
	}
	switch how, o := cOrdRemoval(&g); how {
	case 1:
		verif_assert(t.RemoveRoute(nw, c08ID(o)) == g[o].live, "C10/cidr-remove-exactly-that-route")
		g[o].live = false
	case 2:
		n := t.RemoveRoutesFromPeer(c08ID(o))
		verif_assert(n == cOrdPeerLoss(&g, o), "C10/cidr-disconnect-removes-exactly-peer-routes")
	}
	verif_reach("C08/order")
	got := t.Lookup(net.IP{10, 1, 2, 3})
	best, any := cOrdBest(&g)
	verif_assert((got != nil) == any, "C08/nothing-iff-no-route-contains")
	if got != nil {
		verif_assert(got.Metric == best, "C08/lowest-metric")
	}
}

func harnessC09OrderDomain() {
	t := NewDomainTable(c08ID(3))
	wild := verif_nondet_bool()
	pat := "a.b"
	if wild {
		pat = "*.a.b"
	}
	var g [3]cOrdGhost
	for i := 0; i < cOrdAdds; i++ {
		o := verif_choose(3)
		origin, hop, path, h := cOrdIDs(o)
		metric, seq := verif_nondet_u16(), verif_nondet_u64()
		isW, base := ParseDomainPattern(pat)
		ok := t.AddRoute(&DomainRoute{Pattern: pat, IsWildcard: isW, BaseDomain: base, NextHop: hop, OriginAgent: origin, Metric: metric, Sequence: seq, Path: path})
		cOrdStep(&g, o, h, metric, seq, ok, "C10/domain-replace-rule")
	}
	switch how, o := cOrdRemoval(&g); how {
	case 1:
		verif_assert(t.RemoveRoute(pat, c08ID(o)) == g[o].live, "C10/domain-remove-exactly-that-route")
		g[o].live = false
	case 2:
		n := t.RemoveRoutesFromPeer(c08ID(o))
		verif_assert(n == cOrdPeerLoss(&g, o), "C10/domain-disconnect-removes-exactly-peer-routes")
	}
	verif_reach("C09/order-domain")
	name := "A.b"
	if wild {
		name = "x.a.B"
	}
	got := t.Lookup(name)
	best, any := cOrdBest(&g)
	verif_assert((got != nil) == any, "C09/domain-nothing-iff-no-pattern-matches")
	if got != nil {
		verif_assert(got.Metric == best, "C09/domain-lowest-metric")
	}
}

func harnessC09OrderForward() {
	t := NewForwardTable(c08ID(3))
	var g [3]cOrdGhost
	for i := 0; i < cOrdAdds; i++ {
		o := verif_choose(3)
		origin, hop, path, h := cOrdIDs(o)
		metric, seq := verif_nondet_u16(), verif_nondet_u64()
		ok := t.AddRoute(&ForwardRoute{Key: "k", NextHop: hop, OriginAgent: origin, Metric: metric, Sequence: seq, Path: path})
		cOrdStep(&g, o, h, metric, seq, ok, "C10/forward-replace-rule")
	}
	switch how, o := cOrdRemoval(&g); how {
	case 1:
		verif_assert(t.RemoveRoute("k", c08ID(o)) == g[o].live, "C10/forward-remove-exactly-that-route")
		g[o].live = false
	case 2:
		n := t.RemoveRoutesFromPeer(c08ID(o))
		verif_assert(n == cOrdPeerLoss(&g, o), "C10/forward-disconnect-removes-exactly-peer-routes")
	}
	verif_reach("C09/order-forward")
	got := t.Lookup("k")
	best, any := cOrdBest(&g)
	verif_assert((got != nil) == any, "C09/forward-nothing-iff-key-unknown")
	if got != nil {
		verif_assert(got.Metric == best, "C09/forward-lowest-metric")
	}
}

func harnessC09OrderAgent() {
	t := NewAgentTable(c08ID(3))
	target := c08ID(0)
	var g [3]cOrdGhost
	for i := 0; i < cOrdAdds; i++ {
		// the agent table keys by (origin, next hop): vary the next hop, the origin is the target
		o := verif_choose(3)
		hop := c08ID(o)
		metric, seq := verif_nondet_u16(), verif_nondet_u64()
		ok := t.AddRoute(&AgentRoute{AgentID: target, NextHop: hop, OriginAgent: target, Metric: metric, Sequence: seq, Path: []identity.AgentID{hop, target}})
		cOrdStep(&g, o, o, metric, seq, ok, "C10/agent-replace-rule")
	}
	if how, o := cOrdRemoval(&g); how == 2 {
		n := t.RemoveRoutesFromPeer(c08ID(o))
		verif_assert(n == cOrdPeerLoss(&g, o), "C10/agent-disconnect-removes-exactly-peer-routes")
	}
	verif_reach("C09/order-agent")
	got := t.Lookup(target)
	best, any := cOrdBest(&g)
	verif_assert((got != nil) == any, "C09/agent-nothing-iff-unknown")
	if got != nil {
		verif_assert(got.Metric == best, "C09/agent-lowest-metric")
	}
}

// C08 across address families: an IPv6 default route never answers for an IPv4
// destination (in 4-byte or mapped form), an IPv4 default route never answers
// for an IPv6 destination
func harnessC08Families() {
	t := NewTable(c08ID(3))
	v6def := &net.IPNet{IP: make(net.IP, 16), Mask: net.CIDRMask(0, 128)}
	v4net := &net.IPNet{IP: net.IP{10, 0, 0, 0}, Mask: net.CIDRMask(8, 32)}
	has6, has4 := verif_nondet_bool(), verif_nondet_bool()
	if has6 {
		t.AddRoute(&Route{Network: v6def, NextHop: c08ID(0), OriginAgent: c08ID(0), Metric: 1, Sequence: 1, Path: []identity.AgentID{c08ID(0)}})
	}
	if has4 {
		t.AddRoute(&Route{Network: v4net, NextHop: c08ID(1), OriginAgent: c08ID(1), Metric: 1, Sequence: 1, Path: []identity.AgentID{c08ID(1)}})
	}
	a := verif_nondet_bytes(4)
	var addr net.IP
	switch verif_choose(3) {
	case 0:
		addr = net.IP{a[0], a[1], a[2], a[3]}
	case 1:
		addr = net.IP{0, 0, 0, 0, 0, 0, 0, 0, 0, 0, 0xff, 0xff, a[0], a[1], a[2], a[3]}
	case 2:
		// a genuine IPv6 destination
		addr = net.IP{0x20, 1, 0, 0, 0, 0, 0, 0, 0, 0, 0, 0, a[0], a[1], a[2], a[3]}
		got := t.Lookup(addr)
		verif_reach("C08/families-v6")
		verif_assert((got != nil) == has6, "C08/nothing-iff-no-route-contains")
		if got != nil {
			verif_assert(got.OriginAgent == c08ID(0), "C08/result-contains-address")
		}
		return
	}
	got := t.Lookup(addr)
	verif_reach("C08/families-v4")
	want := has4 && a[0] == 10
	verif_assert((got != nil) == want, "C08/nothing-iff-no-route-contains")
	if got != nil {
		verif_assert(got.OriginAgent == c08ID(1), "C08/result-contains-address")
	}
}

// C08 for IPv6: two nested IPv6 networks of different prefix lengths (every pair from
// 16, 32, 48, 64, 128 bits -- 32 and 128 are also the lengths of IPv4 host routes and of
// IPv6 host routes), stored in either order (map iteration follows insertion order in
// the model): the destination inside both resolves to the longer prefix
func harnessC08V6LongestPrefix() {
	lens := []int{16, 32, 48, 64, 128}
	i := verif_choose(len(lens) - 1)
	j := i + 1 + verif_choose(len(lens)-1-i)
	l1, l2 := lens[i], lens[j]
	base := net.IP{0x20, 0x01, 0x0d, 0xb8, 0, 1, 0, 2, 0, 0, 0, 0, 0, 0, 0, 0x42}
	n1 := &net.IPNet{IP: base.Mask(net.CIDRMask(l1, 128)), Mask: net.CIDRMask(l1, 128)}
	n2 := &net.IPNet{IP: base.Mask(net.CIDRMask(l2, 128)), Mask: net.CIDRMask(l2, 128)}
	r1 := &Route{Network: n1, NextHop: c08ID(0), OriginAgent: c08ID(0), Metric: 1, Sequence: 1, Path: []identity.AgentID{c08ID(0)}}
	r2 := &Route{Network: n2, NextHop: c08ID(1), OriginAgent: c08ID(1), Metric: 5, Sequence: 1, Path: []identity.AgentID{c08ID(1)}}
	t := NewTable(c08ID(3))
	if verif_nondet_bool() {
		t.AddRoute(r1)
		t.AddRoute(r2)
	} else {
		t.AddRoute(r2)
		t.AddRoute(r1)
	}
	got := t.Lookup(base)
	verif_reach("C08/v6-longest-prefix")
	verif_assert(got != nil, "C08/nothing-iff-no-route-contains")
	if got != nil {
		verif_assert(got.OriginAgent == c08ID(1), "C08/v6-longest-prefix-wins")
	}
}
