package routing

import (
	"net"
	"time"

	"github.com/postalsys/muti-metroo/internal/identity"
)

// C08 / C10 (CIDR table): bounded histories of route-table operations through
// the public API, checked against a ghost list maintained by the documented
// rules, followed by a lookup of an arbitrary address checked against the
// longest-prefix / lowest-metric reference predicate.

type c08Ghost struct {
	ip      [4]byte
	ones    int
	origin  identity.AgentID
	nextHop identity.AgentID
	metric  uint16
	seq     uint64
	live    bool
}

func c08ID(k int) identity.AgentID {
	// three distinct identities chosen symbolically (k in 0..2) plus the local one (3)
	var id identity.AgentID
	id[0] = byte(0xA0 + k)
	return id
}

func c08Mask(ones int) net.IPMask {
	m := make(net.IPMask, 4)
	all := uint32(0xFFFFFFFF) << uint(32-ones)
	if ones == 0 {
		all = 0
	}
	m[0], m[1], m[2], m[3] = byte(all>>24), byte(all>>16), byte(all>>8), byte(all)
	return m
}

func c08Net() (*net.IPNet, [4]byte, int) {
	ones := verif_nondet_int()
	verif_assume(ones >= 0 && ones <= 32)
	m := c08Mask(ones)
	var ip [4]byte
	for i := range ip {
		ip[i] = verif_nondet_u8() & m[i]
	}
	return &net.IPNet{IP: net.IP{ip[0], ip[1], ip[2], ip[3]}, Mask: m}, ip, ones
}

func c08Contains(ip [4]byte, ones int, a [4]byte) bool {
	m := c08Mask(ones)
	return a[0]&m[0] == ip[0] && a[1]&m[1] == ip[1] && a[2]&m[2] == ip[2] && a[3]&m[3] == ip[3]
}

func c08SameNet(g *c08Ghost, ip [4]byte, ones int) bool {
	return g.ones == ones && g.ip == ip
}

func harnessC08History() {
	local := c08ID(3)
	t := NewTable(local)
	var ghost [c08Ops]c08Ghost
	ng := 0
	for step := 0; step < c08Ops; step++ {
		switch verif_choose(3) {
		case 0: // add / update
			nw, ip, ones := c08Net()
			origin, hop := c08ID(verif_choose(3)), c08ID(verif_choose(3))
			metric, seq := verif_nondet_u16(), verif_nondet_u64()
			selfInPath := verif_nondet_bool()
			r := &Route{Network: nw, NextHop: hop, OriginAgent: origin, Metric: metric, Sequence: seq}
			if selfInPath {
				r.Path = []identity.AgentID{hop, local, origin}
			} else {
				r.Path = []identity.AgentID{hop, origin}
			}
			ok := t.AddRoute(r)
			// reference
			idx := -1
			for i := 0; i < ng; i++ {
				if ghost[i].live && c08SameNet(&ghost[i], ip, ones) && ghost[i].origin == origin {
					idx = i
				}
			}
			want := !selfInPath
			if want && idx >= 0 {
				want = seq > ghost[idx].seq || (seq == ghost[idx].seq && metric < ghost[idx].metric)
			}
			verif_assert(!selfInPath || !ok, "C10/cidr-route-through-self-stored")
			verif_assert(ok == want, "C10/cidr-replace-rule")
			if ok {
				if idx < 0 {
					idx = ng
					ng++
				}
				ghost[idx] = c08Ghost{ip: ip, ones: ones, origin: origin, nextHop: hop, metric: metric, seq: seq, live: true}
			}
		case 1: // withdraw one origin's route for a network already used, or an arbitrary one
			nw, ip, ones := c08Net()
			origin := c08ID(verif_choose(3))
			ok := t.RemoveRoute(nw, origin)
			found := false
			for i := 0; i < ng; i++ {
				if ghost[i].live && c08SameNet(&ghost[i], ip, ones) && ghost[i].origin == origin {
					ghost[i].live = false
					found = true
				}
			}
			verif_assert(ok == found, "C10/cidr-remove-exactly-that-route")
		case 2: // peer disconnect
			peer := c08ID(verif_choose(3))
			n := t.RemoveRoutesFromPeer(peer)
			cnt := 0
			for i := 0; i < ng; i++ {
				if ghost[i].live && ghost[i].nextHop == peer {
					ghost[i].live = false
					cnt++
				}
			}
			verif_assert(n == cnt, "C10/cidr-disconnect-removes-exactly-peer-routes")
		}
	}
	// table content == ghost
	live := 0
	for i := 0; i < ng; i++ {
		if ghost[i].live {
			live++
			verif_assert(t.HasRoute(&net.IPNet{IP: net.IP{ghost[i].ip[0], ghost[i].ip[1], ghost[i].ip[2], ghost[i].ip[3]}, Mask: c08Mask(ghost[i].ones)}, ghost[i].origin), "C10/cidr-live-route-present")
		}
	}
	verif_assert(t.TotalRoutes() == live, "C10/cidr-table-equals-history")
	verif_reach("C08/history")

	// lookup of an arbitrary address
	var a [4]byte
	for i := range a {
		a[i] = verif_nondet_u8()
	}
	var addr net.IP
	if verif_nondet_bool() {
		addr = net.IP{a[0], a[1], a[2], a[3]}
	} else {
		addr = net.IP{0, 0, 0, 0, 0, 0, 0, 0, 0, 0, 0xff, 0xff, a[0], a[1], a[2], a[3]}
	}
	got := t.Lookup(addr)
	anyContains := false
	for i := 0; i < ng; i++ {
		if ghost[i].live && c08Contains(ghost[i].ip, ghost[i].ones, a) {
			anyContains = true
		}
	}
	verif_assert((got == nil) == !anyContains, "C08/nothing-iff-no-route-contains")
	if got != nil {
		verif_reach("C08/lookup-hit")
		gones, _ := got.Network.Mask.Size()
		var gip [4]byte
		copy(gip[:], got.Network.IP.To4())
		verif_assert(c08Contains(gip, gones, a), "C08/result-contains-address")
		isStored := false
		for i := 0; i < ng; i++ {
			g := &ghost[i]
			if !g.live {
				continue
			}
			if c08Contains(g.ip, g.ones, a) {
				verif_assert(g.ones <= gones, "C08/longest-prefix")
				if g.ones == gones {
					verif_assert(g.metric >= got.Metric, "C08/lowest-metric")
				}
			}
			if c08SameNet(g, gip, gones) && g.origin == got.OriginAgent && g.nextHop == got.NextHop && g.metric == got.Metric && g.seq == got.Sequence {
				isStored = true
			}
		}
		verif_assert(isStored, "C08/result-is-a-stored-route")
	}
}

// Stale-route cleanup with an arbitrary clock: removes exactly the non-local
// routes older than maxAge.
func harnessC10Cleanup() {
	local := c08ID(3)
	t := NewTable(local)
	nw1, _, _ := c08Net()
	nw2, _, _ := c08Net()
	t0 := verif_nondet_i64()
	verif_assume(t0 >= 0 && t0 < (1<<60))
	verif_set_now(t0)
	ok1 := t.AddRoute(&Route{Network: nw1, NextHop: c08ID(0), OriginAgent: c08ID(0), Metric: 1, Sequence: 1})
	dt := verif_nondet_i64()
	verif_assume(dt >= 0 && dt < (1<<60))
	verif_set_now(t0 + dt)
	ok2 := t.AddRoute(&Route{Network: nw2, NextHop: c08ID(1), OriginAgent: local, Metric: 0, Sequence: 1})
	verif_assert(ok1 && ok2, "C10/cleanup-setup")
	age := verif_nondet_i64()
	verif_assume(age >= 0 && age < (1<<60))
	verif_set_now(t0 + dt + age)
	maxAge := verif_nondet_i64()
	verif_assume(maxAge >= 0 && maxAge < (1<<61))
	removed := t.CleanupStaleRoutes(time.Duration(maxAge))
	verif_reach("C10/cleanup")
	stale := dt+age > maxAge
	verif_assert(t.HasRoute(nw2, local), "C10/cleanup-removed-local-route")
	verif_assert(t.HasRoute(nw1, c08ID(0)) == !stale, "C10/cleanup-removes-exactly-stale")
	if stale {
		verif_assert(removed == 1, "C10/cleanup-count")
	} else {
		verif_assert(removed == 0, "C10/cleanup-count")
	}
}

func harnessC08Witness() {
	t := NewTable(c08ID(3))
	nw, _, _ := c08Net()
	t.AddRoute(&Route{Network: nw, NextHop: c08ID(0), OriginAgent: c08ID(1), Metric: 5})
	if r := t.Lookup(net.IP{10, 1, 2, 3}); r != nil && r.Metric == 5 {
		verif_assert(false, "witness")
	}
}
