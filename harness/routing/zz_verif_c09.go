package routing

import "github.com/postalsys/muti-metroo/internal/identity"

// C09 / C10: domain, forward-key and agent-presence tables.

// c09Name: a string of the given length over an alphabet that exercises letter
// case, label structure and the wildcard marker.
func c09Name(n int) string {
	b := verif_nondet_bytes(n)
	for i := range b {
		verif_assume(b[i] == 'a' || b[i] == 'A' || b[i] == 'b' || b[i] == '.')
	}
	return string(b)
}

func c09Lower(s string) string {
	b := []byte(s)
	for i := range b {
		c := b[i]
		if c >= 'A' && c <= 'Z' {
			c += 32
		}
		b[i] = c
	}
	return string(b)
}

func c09HasDot(s string) bool {
	d := false
	for i := 0; i < len(s); i++ {
		d = d || s[i] == '.'
	}
	return d
}

// wildcard "*.base" matches name iff name = label + "." + base, label non-empty and dot-free
func c09WildMatches(base, name string) bool {
	lb, ln := c09Lower(base), c09Lower(name)
	if len(ln) < len(lb)+2 {
		return false
	}
	cut := len(ln) - len(lb)
	return ln[cut:] == lb && ln[cut-1] == '.' && !c09HasDot(ln[:cut-1])
}

type c09DGhost struct {
	wild   bool
	name   string // pattern (exact) or base (wildcard)
	origin identity.AgentID
	hop    identity.AgentID
	metric uint16
	seq    uint64
	live   bool
}

func c09Pattern() (string, bool, string) {
	if verif_nondet_bool() {
		base := c09Name(1 + verif_choose(3))
		return "*." + base, true, base
	}
	p := c09Name(1 + verif_choose(3))
	return p, false, p
}

const c09Ops = 2

func harnessC09Domain() {
	local := c08ID(3)
	t := NewDomainTable(local)
	var ghost [c09Ops]c09DGhost
	ng := 0
	for step := 0; step < c09Ops; step++ {
		pat, wild, name := c09Pattern()
		isW, base := ParseDomainPattern(pat)
		verif_assert(isW == wild, "C09/pattern-wildcard-flag")
		if wild {
			verif_assert(base == name, "C09/pattern-base")
		}
		origin, hop := c08ID(verif_choose(2)), c08ID(verif_choose(2))
		metric, seq := verif_nondet_u16(), verif_nondet_u64()
		ok := t.AddRoute(&DomainRoute{Pattern: pat, IsWildcard: isW, BaseDomain: base, NextHop: hop, OriginAgent: origin, Metric: metric, Sequence: seq, Path: []identity.AgentID{hop, origin}})
		idx := -1
		for i := 0; i < ng; i++ {
			if ghost[i].live && ghost[i].wild == wild && c09Lower(ghost[i].name) == c09Lower(name) && ghost[i].origin == origin {
				idx = i
			}
		}
		want := true
		if idx >= 0 {
			want = seq > ghost[idx].seq || (seq == ghost[idx].seq && metric < ghost[idx].metric)
		}
		verif_assert(ok == want, "C10/domain-replace-rule")
		if ok {
			if idx < 0 {
				idx = ng
				ng++
			}
			ghost[idx] = c09DGhost{wild: wild, name: name, origin: origin, hop: hop, metric: metric, seq: seq, live: true}
		}
	}
	if verif_nondet_bool() {
		peer := c08ID(verif_choose(2))
		n := t.RemoveRoutesFromPeer(peer)
		cnt := 0
		for i := 0; i < ng; i++ {
			if ghost[i].live && ghost[i].hop == peer {
				ghost[i].live = false
				cnt++
			}
		}
		verif_assert(n == cnt, "C10/domain-disconnect-removes-exactly-peer-routes")
	}
	verif_reach("C09/domain-history")
	q := c09Name(2 + verif_choose(3))
	got := t.Lookup(q)
	// reference
	exact, wildc := false, false
	var bestE, bestW uint16
	for i := 0; i < ng; i++ {
		g := &ghost[i]
		if !g.live {
			continue
		}
		if !g.wild && c09Lower(g.name) == c09Lower(q) {
			if !exact || g.metric < bestE {
				bestE = g.metric
			}
			exact = true
		}
		if g.wild && c09WildMatches(g.name, q) {
			if !wildc || g.metric < bestW {
				bestW = g.metric
			}
			wildc = true
		}
	}
	verif_assert((got != nil) == (exact || wildc), "C09/domain-found-iff-pattern-matches")
	if got != nil {
		verif_reach("C09/domain-hit")
		if exact {
			verif_assert(!got.IsWildcard, "C09/exact-beats-wildcard")
			verif_assert(got.Metric == bestE, "C09/domain-lowest-metric-exact")
			verif_assert(c09Lower(got.Pattern) == c09Lower(q), "C09/domain-exact-pattern")
		} else {
			verif_assert(got.IsWildcard, "C09/wildcard-result")
			verif_assert(got.Metric == bestW, "C09/domain-lowest-metric-wildcard")
			verif_assert(c09WildMatches(got.BaseDomain, q), "C09/wildcard-one-label-deep")
		}
	}
}

// Forward keys: byte-exact keys, lowest metric.
func harnessC09Forward() {
	local := c08ID(3)
	t := NewForwardTable(local)
	type fg struct {
		key    string
		origin identity.AgentID
		hop    identity.AgentID
		metric uint16
		seq    uint64
		live   bool
	}
	var ghost [2]fg
	ng := 0
	for step := 0; step < 2; step++ {
		key := verif_nondet_string(1 + verif_choose(2))
		origin, hop := c08ID(verif_choose(2)), c08ID(verif_choose(2))
		metric, seq := verif_nondet_u16(), verif_nondet_u64()
		selfInPath := verif_nondet_bool()
		path := []identity.AgentID{hop, origin}
		if selfInPath {
			path = []identity.AgentID{hop, local}
		}
		ok := t.AddRoute(&ForwardRoute{Key: key, Target: "t", NextHop: hop, OriginAgent: origin, Metric: metric, Sequence: seq, Path: path})
		idx := -1
		for i := 0; i < ng; i++ {
			if ghost[i].live && ghost[i].key == key && ghost[i].origin == origin {
				idx = i
			}
		}
		want := !selfInPath
		if want && idx >= 0 {
			want = seq > ghost[idx].seq || (seq == ghost[idx].seq && metric < ghost[idx].metric)
		}
		verif_assert(!selfInPath || !ok, "C10/forward-route-through-self-stored")
		verif_assert(ok == want, "C10/forward-replace-rule")
		if ok {
			if idx < 0 {
				idx = ng
				ng++
			}
			ghost[idx] = fg{key, origin, hop, metric, seq, true}
		}
	}
	if verif_nondet_bool() {
		peer := c08ID(verif_choose(2))
		n := t.RemoveRoutesFromPeer(peer)
		cnt := 0
		for i := 0; i < ng; i++ {
			if ghost[i].live && ghost[i].hop == peer {
				ghost[i].live = false
				cnt++
			}
		}
		verif_assert(n == cnt, "C10/forward-disconnect-removes-exactly-peer-routes")
	}
	verif_reach("C09/forward-history")
	q := verif_nondet_string(1 + verif_choose(2))
	got := t.Lookup(q)
	found := false
	var best uint16
	for i := 0; i < ng; i++ {
		if ghost[i].live && ghost[i].key == q {
			if !found || ghost[i].metric < best {
				best = ghost[i].metric
			}
			found = true
		}
	}
	verif_assert((got != nil) == found, "C09/forward-found-iff-key-stored")
	if got != nil {
		verif_reach("C09/forward-hit")
		verif_assert(got.Key == q && got.Metric == best, "C09/forward-lowest-metric")
	}
}

// Agent presence: keyed by agent, one entry per (origin, next hop).
func harnessC09Agent() {
	local := c08ID(3)
	t := NewAgentTable(local)
	type ag struct {
		agent, origin, hop identity.AgentID
		metric             uint16
		seq                uint64
		live               bool
	}
	var ghost [2]ag
	ng := 0
	for step := 0; step < 2; step++ {
		agent := c08ID(verif_choose(2))
		hop := c08ID(verif_choose(2))
		metric, seq := verif_nondet_u16(), verif_nondet_u64()
		selfInPath := verif_nondet_bool()
		path := []identity.AgentID{hop, agent}
		if selfInPath {
			path = []identity.AgentID{hop, local, agent}
		}
		ok := t.AddRoute(&AgentRoute{AgentID: agent, NextHop: hop, OriginAgent: agent, Metric: metric, Sequence: seq, Path: path})
		idx := -1
		for i := 0; i < ng; i++ {
			if ghost[i].live && ghost[i].agent == agent && ghost[i].origin == agent && ghost[i].hop == hop {
				idx = i
			}
		}
		want := !selfInPath
		if want && idx >= 0 {
			want = seq > ghost[idx].seq || (seq == ghost[idx].seq && metric < ghost[idx].metric)
		}
		verif_assert(!selfInPath || !ok, "C10/agent-route-through-self-stored")
		verif_assert(ok == want, "C10/agent-replace-rule")
		if ok {
			if idx < 0 {
				idx = ng
				ng++
			}
			ghost[idx] = ag{agent, agent, hop, metric, seq, true}
		}
	}
	if verif_nondet_bool() {
		peer := c08ID(verif_choose(2))
		n := t.RemoveRoutesFromPeer(peer)
		cnt := 0
		for i := 0; i < ng; i++ {
			if ghost[i].live && ghost[i].hop == peer {
				ghost[i].live = false
				cnt++
			}
		}
		verif_assert(n == cnt, "C10/agent-disconnect-removes-exactly-peer-routes")
	}
	verif_reach("C09/agent-history")
	q := c08ID(verif_choose(3))
	got := t.Lookup(q)
	found := false
	var best uint16
	for i := 0; i < ng; i++ {
		if ghost[i].live && ghost[i].agent == q {
			if !found || ghost[i].metric < best {
				best = ghost[i].metric
			}
			found = true
		}
	}
	verif_assert((got != nil) == found, "C09/agent-found-iff-stored")
	if got != nil {
		verif_reach("C09/agent-hit")
		verif_assert(got.AgentID == q && got.Metric == best, "C09/agent-lowest-metric")
	}
}

func harnessC09Witness() {
	t := NewDomainTable(c08ID(3))
	t.AddRoute(&DomainRoute{Pattern: "*.b", IsWildcard: true, BaseDomain: "b", NextHop: c08ID(0), OriginAgent: c08ID(0), Metric: 3})
	if r := t.Lookup(c09Name(3)); r != nil {
		verif_assert(false, "witness")
	}
}
