package peer

const (
	c31Steps = 5
	c32Steps = 5
)
