package embed

const (
	c36MaxBin  = 40
	c36MaxCfg  = 8
	c36MaxFile = 64
)
