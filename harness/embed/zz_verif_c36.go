package embed

import "errors"

// C36: embedded configuration round-trips; malformed binaries are handled
// safely (no crash, no read outside the file).

func c36EndsWithMagic(b []byte) bool {
	if len(b) < FooterSize {
		return false
	}
	for i := 0; i < 8; i++ {
		if b[len(b)-8+i] != Magic[i] {
			return false
		}
	}
	return true
}

func c36Equal(a, b []byte) bool {
	if len(a) != len(b) {
		return false
	}
	eq := true
	for i := range a {
		eq = eq && a[i] == b[i]
	}
	return eq
}

func harnessC36RoundTrip() {
	n := verif_nondet_int()
	verif_assume(n >= 0 && n <= c36MaxBin)
	m := verif_nondet_int()
	verif_assume(m >= 1 && m <= c36MaxCfg)
	bin := verif_nondet_bytes(n)
	cfg := verif_nondet_bytes(m)
	src, dst, out := verif_fs_path("src.bin"), verif_fs_path("dst.bin"), verif_fs_path("out.bin")
	if verif_nondet_bool() {
		dst = src // embedding in place is documented to work
	}
	verif_fs_write(src, bin)
	err := AppendConfig(src, dst, cfg)
	if err != nil {
		verif_assert(errors.Is(err, ErrAlreadyEmbedded) && c36EndsWithMagic(bin), "C36/append-fails-only-when-already-embedded")
		return
	}
	verif_assert(!c36EndsWithMagic(bin), "C36/already-embedded-is-refused")
	verif_reach("C36/embedded")
	has, err := HasEmbeddedConfig(dst)
	verif_assert(err == nil && has, "C36/has-embedded")
	got, err := ReadEmbeddedConfig(dst)
	verif_assert(err == nil, "C36/read-back-ok")
	verif_assert(c36Equal(got, cfg), "C36/read-back-equal")
	sz, err := GetOriginalBinarySize(dst)
	verif_assert(err == nil && sz == int64(n), "C36/original-size")
	err = CopyBinaryWithoutConfig(dst, out)
	verif_assert(err == nil, "C36/strip-ok")
	back, ok := verif_fs_read(out)
	verif_assert(ok && c36Equal(back, bin), "C36/strip-equal")
	verif_assert(!verif_fs_oob(), "C36/roundtrip-no-read-outside-file")
	// XOR is an involution
	verif_assert(c36Equal(XOR(XOR(cfg)), cfg), "C36/xor-involution")
}

// Arbitrary file contents: every reader returns a result or an error, without
// crashing, without reading outside the file, and with a sane size.
func harnessC36Malformed() {
	n := verif_nondet_int()
	verif_assume(n >= 0 && n <= c36MaxFile)
	data := verif_nondet_bytes(n)
	p, out := verif_fs_path("m.bin"), verif_fs_path("m.out")
	verif_fs_write(p, data)
	switch verif_choose(4) {
	case 0:
		has, err := HasEmbeddedConfig(p)
		verif_reach("C36/mal-has")
		verif_assert(err == nil, "C36/has-no-error-on-regular-file")
		verif_assert(has == c36EndsWithMagic(data), "C36/has-iff-magic")
	case 1:
		cfg, err := ReadEmbeddedConfig(p)
		verif_reach("C36/mal-read")
		if err == nil {
			verif_assert(c36EndsWithMagic(data), "C36/read-ok-only-with-magic")
			verif_assert(len(cfg) >= 1 && len(cfg) <= n-FooterSize, "C36/read-length-inside-file")
		}
	case 2:
		sz, err := GetOriginalBinarySize(p)
		verif_reach("C36/mal-size")
		if err == nil {
			verif_assert(sz >= 0 && sz <= int64(n), "C36/original-size-in-range")
		}
	case 3:
		err := CopyBinaryWithoutConfig(p, out)
		verif_reach("C36/mal-copy")
		if err == nil {
			back, ok := verif_fs_read(out)
			verif_assert(ok && len(back) <= n, "C36/strip-not-longer-than-file")
			pre := true
			for i := range back {
				pre = pre && i < n && back[i] == data[i]
			}
			verif_assert(pre, "C36/strip-is-prefix")
		}
	}
	verif_assert(!verif_fs_oob(), "C36/no-read-outside-file")
}

func harnessC36Witness() {
	data := verif_nondet_bytes(20)
	p := verif_fs_path("w.bin")
	verif_fs_write(p, data)
	_, err := ReadEmbeddedConfig(p)
	if err == nil {
		verif_assert(false, "witness")
	}
}
