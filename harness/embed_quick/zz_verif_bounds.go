package embed

const (
	c36MaxBin  = 20
	c36MaxCfg  = 4
	c36MaxFile = 40
)
