package agent

const c19Steps = 3
