package agent

const (
	c19Steps   = 3
	c04Payload = 3 // application bytes per write/datagram/echo: 1..c04Payload
	c07Classes = 6
)
