package agent

const (
	c19Steps   = 3
	c07Classes = 6
)
