package forward

const (
	c20Endpoints = 3
	c20KeyMax    = 3
	c20ReqMax    = 4
)
