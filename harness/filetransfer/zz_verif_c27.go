package filetransfer

import (
	"archive/tar"
	"bytes"
	"compress/gzip"
	"io"
	"os"
)

// C27: extraction of one arbitrary archive entry, from an arbitrary state of
// the destination that earlier entries can have produced, touches nothing
// outside the destination. One inductive step: the pre-state family contains
// symbolic links at every position with real targets inside and outside the
// destination (links whose real target is outside are producible by entries
// that pass the lexical checks, e.g. p/m -> "." then p/k -> "m/../.."), so
// safety of every single step from every such state gives safety of every
// archive.

type c27Entry struct {
	typ      byte
	name     string
	linkname string
}

var (
	c27Entries []c27Entry
	c27Pos     int
)

// symbolic-mode replacements for the archive readers (see props/C27.json)
func c27Gzip(r io.Reader) (*gzip.Reader, error) { return new(gzip.Reader), nil }
func c27GzClose(z *gzip.Reader) error           { return nil }
func c27Next(tr *tar.Reader) (*tar.Header, error) {
	if c27Pos >= len(c27Entries) {
		return nil, io.EOF
	}
	e := c27Entries[c27Pos]
	c27Pos++
	return &tar.Header{Typeflag: e.typ, Name: e.name, Linkname: e.linkname, Mode: 0o644, Size: 1}, nil
}
func c27Read(tr *tar.Reader, p []byte) (int, error) {
	if len(p) == 0 {
		return 0, nil
	}
	p[0] = 'X'
	return 1, io.EOF
}
func c27ReadFrom(f *os.File, r io.Reader) (int64, error) {
	buf := make([]byte, 4)
	var total int64
	for {
		n, err := r.Read(buf)
		if n > 0 {
			if _, werr := f.Write(buf[:n]); werr != nil {
				return total, werr
			}
			total += int64(n)
		}
		if err == io.EOF {
			return total, nil
		}
		if err != nil {
			return total, err
		}
	}
}

// real archive for the native replay
func c27Archive() io.Reader {
	var buf bytes.Buffer
	gz := gzip.NewWriter(&buf)
	tw := tar.NewWriter(gz)
	for _, e := range c27Entries {
		h := &tar.Header{Typeflag: e.typ, Name: e.name, Linkname: e.linkname, Mode: 0o644}
		if e.typ == tar.TypeReg {
			h.Size = 1
		}
		tw.WriteHeader(h)
		if e.typ == tar.TypeReg {
			tw.Write([]byte{'X'})
		}
	}
	tw.Close()
	gz.Close()
	return &buf
}

// a relative name of 1..max components, each of "a", "b", ".", ".." (symbolic bytes)
func c27Name(max int) string {
	n := 1 + verif_choose(max)
	var b []byte
	for i := 0; i < n; i++ {
		if i > 0 {
			b = append(b, '/')
		}
		if verif_choose(2) == 1 {
			b = append(b, '.', '.')
			continue
		}
		c := verif_nondet_u8()
		verif_assume(c == 'a' || c == 'b' || c == '.')
		b = append(b, c)
	}
	return string(b)
}

func c27Link(where string, kind int, root string) {
	switch kind {
	case 0:
		verif_fs_symlink(root, where) // outside directory
	case 1:
		verif_fs_symlink(root+"/b", where) // outside file
	case 2:
		verif_fs_symlink(".", where) // inside directory
	case 3:
		verif_fs_symlink("zz", where) // dangling, inside
	}
}

func c27Prestate(root, dest string) {
	verif_fs_mkdir(dest)
	// outside: names that archive entries over the alphabet {a, b} can spell when they
	// escape through a link (d/x -> root makes "x/b" the outside file)
	verif_fs_write(root+"/b", []byte{1, 2})
	verif_fs_write(root+"/a/b", []byte{3})
	switch verif_choose(4) {
	case 0:
	case 1:
		verif_fs_write(dest+"/a", []byte{9})
	case 2:
		c27Link(dest+"/a", verif_choose(4), root)
	case 3:
		verif_fs_mkdir(dest + "/a")
		switch verif_choose(3) {
		case 0:
		case 1:
			verif_fs_write(dest+"/a/a", []byte{9})
		case 2:
			c27Link(dest+"/a/a", verif_choose(4), root)
		}
	}
	if verif_choose(2) == 1 {
		verif_fs_symlink(root+"/b", dest+"/b")
	}
}

func c27Step(witness bool) {
	root := verif_fs_path("r")
	dest := root + "/d"
	c27Prestate(root, dest)
	var e c27Entry
	switch verif_choose(4) {
	case 0:
		e.typ = tar.TypeDir
	case 1:
		e.typ = tar.TypeReg
	case 2:
		e.typ = tar.TypeSymlink
		e.linkname = c27Name(c27LinkComps)
	case 3:
		e.typ = tar.TypeLink
		e.linkname = c27Name(c27LinkComps)
	}
	e.name = c27Name(c27NameComps)
	c27Entries, c27Pos = []c27Entry{e}, 0
	before := verif_fs_digest(root, dest)
	verif_fs_log_reset()
	var rd io.Reader
	if verif_native() {
		rd = c27Archive()
	}
	err := UntarDirectory(rd, dest)
	verif_reach("C27/step")
	if err == nil {
		verif_reach("C27/step-accepted")
	}
	if witness {
		verif_assert(err != nil, "witness")
		return
	}
	verif_assert(verif_fs_digest(root, dest) == before, "C27/outside-of-destination-changed")
	out := verif_fs_outside(dest, "create,write,mkdir,remove,chmod,symlink,link")
	verif_assert(out == "", "C27/extraction-touched-a-path-outside-the-destination")
}

func harnessC27Step()    { c27Step(false) }
func harnessC27Witness() { c27Step(true) }

// base case and a full chain from an empty destination (fixed shapes, symbolic leaf names)
func harnessC27Chain() {
	root := verif_fs_path("r")
	dest := root + "/d"
	verif_fs_write(root+"/b", []byte{1, 2})
	n1, n2 := c27Name(1), c27Name(1)
	c27Entries, c27Pos = []c27Entry{
		{typ: tar.TypeSymlink, name: n1, linkname: "."},
		{typ: tar.TypeSymlink, name: n1 + "/" + n2, linkname: ".."},
		{typ: tar.TypeReg, name: n2 + "/f"},
	}, 0
	before := verif_fs_digest(root, dest)
	verif_fs_log_reset()
	var rd io.Reader
	if verif_native() {
		rd = c27Archive()
	}
	UntarDirectory(rd, dest)
	verif_reach("C27/chain")
	verif_assert(verif_fs_digest(root, dest) == before, "C27/outside-of-destination-changed")
	out := verif_fs_outside(dest, "create,write,mkdir,remove,chmod,symlink,link")
	verif_assert(out == "", "C27/extraction-touched-a-path-outside-the-destination")
}
