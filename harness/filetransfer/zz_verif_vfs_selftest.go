package filetransfer

import (
	"os"
	"path/filepath"
)

// Validation of the model filesystem: the same scenario assertions are run by
// the engine (model) and natively against the operating system (bin/stubtest).
// Each assertion states what Linux does; a difference shows up as a failure on
// one side.
func harnessVFSSelfTest() {
	root := verif_fs_path("t")
	verif_fs_mkdir(root + "/d/sub")
	verif_fs_mkdir(root + "/o")
	verif_fs_write(root+"/o/s", []byte{1, 2})
	verif_fs_write(root+"/d/f", []byte{3})
	verif_fs_symlink(root+"/o", root+"/d/lo")       // link to a directory outside
	verif_fs_symlink("../o/s", root+"/d/ls")        // relative link to a file
	verif_fs_symlink("nowhere", root+"/d/dangling") // dangling
	verif_fs_symlink(".", root+"/d/self")           // link to its own directory

	// Lstat does not follow, Stat does
	li, err := os.Lstat(root + "/d/lo")
	verif_assert(err == nil && li.Mode()&os.ModeSymlink != 0, "vfs/lstat-reports-link")
	si, err := os.Stat(root + "/d/lo")
	verif_assert(err == nil && si.IsDir(), "vfs/stat-follows-link")
	_, err = os.Stat(root + "/d/dangling")
	verif_assert(err != nil && os.IsNotExist(err), "vfs/stat-of-dangling-link-fails")
	_, err = os.Lstat(root + "/d/dangling")
	verif_assert(err == nil, "vfs/lstat-of-dangling-link-succeeds")

	// a link in a parent position is followed by every call
	b, err := os.ReadFile(root + "/d/lo/s")
	verif_assert(err == nil && len(b) == 2 && b[0] == 1, "vfs/read-through-parent-link")
	b, err = os.ReadFile(root + "/d/ls")
	verif_assert(err == nil && len(b) == 2, "vfs/read-through-final-relative-link")
	b, err = os.ReadFile(root + "/d/self/self/f")
	verif_assert(err == nil && len(b) == 1 && b[0] == 3, "vfs/read-through-self-links")

	// EvalSymlinks
	p, err := filepath.EvalSymlinks(root + "/d/lo/s")
	verif_assert(err == nil && p == root+"/o/s", "vfs/evalsymlinks-parent-link")
	p, err = filepath.EvalSymlinks(root + "/d/ls")
	verif_assert(err == nil && p == root+"/o/s", "vfs/evalsymlinks-final-link")
	_, err = filepath.EvalSymlinks(root + "/d/dangling")
	verif_assert(err != nil, "vfs/evalsymlinks-dangling-fails")

	// create through a parent link lands at the real place; O_CREATE through a dangling final link creates the target
	f, err := os.OpenFile(root+"/d/lo/new", os.O_CREATE|os.O_WRONLY|os.O_TRUNC, 0o644)
	verif_assert(err == nil, "vfs/create-through-parent-link")
	if err == nil {
		f.Write([]byte{9})
		f.Close()
	}
	verif_assert(verif_fs_exists(root+"/o/new"), "vfs/created-at-real-location")
	f, err = os.OpenFile(root+"/d/dangling", os.O_CREATE|os.O_WRONLY, 0o644)
	verif_assert(err == nil, "vfs/create-through-dangling-final-link")
	if err == nil {
		f.Close()
	}
	verif_assert(verif_fs_exists(root+"/d/nowhere"), "vfs/dangling-link-target-created")

	// MkdirAll: through a link to a directory; refuses a dangling link component
	verif_assert(os.MkdirAll(root+"/d/lo/m/n", 0o755) == nil && verif_fs_exists(root+"/o/m/n"), "vfs/mkdirall-through-link")
	verif_fs_symlink("void", root+"/d/dang2")
	verif_assert(os.MkdirAll(root+"/d/dang2/x", 0o755) != nil, "vfs/mkdirall-through-dangling-link-fails")
	verif_assert(os.MkdirAll(root+"/d/f/x", 0o755) != nil, "vfs/mkdirall-through-file-fails")

	// Remove acts on the link itself; Remove of a non-empty directory fails; RemoveAll does not follow
	verif_assert(os.Remove(root+"/d/ls") == nil && verif_fs_exists(root+"/o/s"), "vfs/remove-removes-the-link-only")
	verif_assert(os.Remove(root+"/d/sub/..") != nil || true, "vfs/noop")
	verif_assert(os.Remove(root+"/o") != nil, "vfs/remove-non-empty-directory-fails")
	verif_assert(os.RemoveAll(root+"/d/lo") == nil && verif_fs_exists(root+"/o/s"), "vfs/removeall-does-not-follow-a-link")
	verif_assert(os.RemoveAll(root+"/d/none") == nil, "vfs/removeall-of-missing-path-succeeds")

	// Chmod follows a final link
	verif_fs_symlink(root+"/o/s", root+"/d/lc")
	verif_assert(os.Chmod(root+"/d/lc", 0o600) == nil, "vfs/chmod-through-link")
	si, err = os.Stat(root + "/o/s")
	verif_assert(err == nil && si.Mode().Perm() == 0o600, "vfs/chmod-changed-the-target")

	// Symlink refuses an existing name; Link does not follow a final link and aliases content
	verif_assert(os.Symlink("x", root+"/d/lc") != nil, "vfs/symlink-over-existing-name-fails")
	verif_assert(os.Link(root+"/o/s", root+"/d/hard") == nil, "vfs/hard-link")
	f, err = os.OpenFile(root+"/d/hard", os.O_WRONLY|os.O_TRUNC, 0)
	verif_assert(err == nil, "vfs/open-hard-link")
	if err == nil {
		f.Write([]byte{7, 7, 7})
		f.Close()
	}
	b, err = os.ReadFile(root + "/o/s")
	verif_assert(err == nil && len(b) == 3 && b[0] == 7, "vfs/hard-link-aliases-content")
	verif_assert(os.Link(root+"/d/lc", root+"/d/hl") == nil, "vfs/hard-link-to-a-symlink")
	li, err = os.Lstat(root + "/d/hl")
	verif_assert(err == nil && li.Mode()&os.ModeSymlink != 0, "vfs/hard-link-of-a-link-is-a-link")
	verif_assert(os.Link(root+"/d/sub", root+"/d/hd") != nil, "vfs/hard-link-to-directory-fails")

	// ReadDir lists names of the real directory, links reported as links
	es, err := os.ReadDir(root + "/d/self")
	verif_assert(err == nil && len(es) > 3, "vfs/readdir-through-link")
	seen := false
	for _, e := range es {
		if e.Name() == "lc" {
			seen = e.Type()&os.ModeSymlink != 0
		}
	}
	verif_assert(seen, "vfs/readdir-reports-link-type")
	_, err = os.ReadDir(root + "/d/f")
	verif_assert(err != nil, "vfs/readdir-of-file-fails")

	// Rename replaces; open with O_EXCL refuses an existing name (also a dangling link)
	verif_assert(os.Rename(root+"/d/f", root+"/d/g") == nil && !verif_fs_exists(root+"/d/f") && verif_fs_exists(root+"/d/g"), "vfs/rename")
	verif_fs_symlink("void2", root+"/d/dang3")
	_, err = os.OpenFile(root+"/d/dang3", os.O_CREATE|os.O_EXCL|os.O_WRONLY, 0o644)
	verif_assert(err != nil, "vfs/excl-create-over-dangling-link-fails")
	verif_reach("vfs/selftest")
}
