package filetransfer

import (
	"bytes"
	"io"
	"os"
	"strings"

	"golang.org/x/text/unicode/norm"
)

// C26: every file or directory that transfer or browsing reads, writes,
// creates, lists, chmods or deletes is inside the allowed paths after links are
// resolved.

// NFC normalisation is the identity on ASCII (the harness paths are ASCII).
func c26NFC(f norm.Form, s string) string { return s }

// formatting of browse entries is not the subject
func c26Populate(entry *FileEntry, info os.FileInfo) {
	entry.Size = info.Size()
	entry.IsDir = info.IsDir()
}

var c26Secret = []byte{0xde, 0xad}

// one path component: "..", or one byte of the names used in the tree or "."
func c26Comp(b []byte) []byte {
	if verif_choose(2) == 1 {
		return append(b, '.', '.')
	}
	c := verif_nondet_u8()
	verif_assume(c == 'a' || c == 'o' || c == 'l' || c == 'k' || c == 'd' || c == 'f' || c == 's' || c == 'n' || c == 'm' || c == 'g' || c == '.')
	return append(b, c)
}

// requested path: root, then 1..c26Comps+1 symbolic components
func c26Path(root string) string {
	b := []byte(root)
	n := 2 + verif_choose(c26Comps)
	for i := 0; i < n; i++ {
		b = append(b, '/')
		b = c26Comp(b)
	}
	return string(b)
}

// the reachability witness only has to reach a performed operation: one tree, one allow-list form
var c26WitnessMode bool

func c26Tree(root string) {
	verif_fs_mkdir(root + "/a/d")
	verif_fs_write(root+"/a/f", []byte{7})
	verif_fs_mkdir(root + "/o")
	verif_fs_write(root+"/o/s", c26Secret)
	tree := 0
	if !c26WitnessMode {
		tree = verif_choose(5)
	}
	switch tree {
	case 0:
	case 4:
		verif_fs_symlink(root+"/o/zz", root+"/a/g") // dangling link: its target outside does not exist (yet)
	case 1:
		verif_fs_symlink(root+"/o", root+"/a/l") // link as a parent directory of the request
	case 2:
		verif_fs_symlink(root+"/o/s", root+"/a/k") // link as the final component
	case 3:
		verif_fs_symlink("../../o", root+"/a/d/l") // relative link, deeper
	}
}

func c26Allowed(root string) []string {
	if c26WitnessMode {
		return []string{root + "/a"}
	}
	switch verif_choose(4) {
	case 3:
		// the allowed directory is itself reached through a link: its real location is r/a
		verif_fs_symlink(root+"/a", root+"/m")
		return []string{root + "/m"}
	case 0:
		return []string{root + "/a"}
	case 1:
		return []string{root + "/a/**"}
	}
	return []string{root + "/a/*"}
}

func c26Op(witness bool) {
	c26WitnessMode = witness
	root := verif_fs_path("r")
	c26Tree(root)
	h := NewStreamHandler(StreamConfig{Enabled: true, AllowedPaths: c26Allowed(root)})
	p := c26Path(root)
	// r/m, when present, is the allowed path itself (a link to r/a)
	before := verif_fs_digest(root, root+"/a:"+root+"/m")
	verif_fs_log_reset()
	leaked := false
	acted := false
	switch verif_choose(6) {
	case 0: // upload
		meta := &TransferMetadata{Path: p, Mode: 0o644, Size: 1}
		if h.ValidateUploadMetadata(meta) == nil {
			_, err := h.WriteUploadedFile(p, bytes.NewReader([]byte{'X'}), 0o644, false, false)
			acted = err == nil
		}
	case 1: // download
		meta := &TransferMetadata{Path: p}
		if h.ValidateDownloadMetadata(meta) == nil {
			r, _, _, isDir, err := h.ReadFileForDownload(p, false)
			if err == nil && !isDir {
				acted = true
				got, _ := io.ReadAll(r)
				leaked = bytes.Equal(got, c26Secret)
			}
		}
	case 2:
		resp := h.Browse(&BrowseRequest{Action: "list", Path: p})
		if resp.Error == "" {
			acted = true
			for _, e := range resp.Entries {
				if e.Name == "s" {
					leaked = true
				}
			}
		}
	case 3:
		resp := h.Browse(&BrowseRequest{Action: "stat", Path: p})
		acted = resp.Error == ""
	case 4:
		resp := h.Browse(&BrowseRequest{Action: "chmod", Path: p, Mode: "0600"})
		acted = resp.Error == ""
	case 5:
		resp := h.Browse(&BrowseRequest{Action: "delete", Path: p, Recursive: verif_nondet_bool()})
		acted = resp.Error == ""
	}
	verif_reach("C26/op")
	if acted {
		verif_reach("C26/op-performed")
	}
	if witness {
		verif_assert(!acted, "witness")
		return
	}
	verif_assert(verif_fs_digest(root, root+"/a:"+root+"/m") == before, "C26/something-outside-the-allowed-paths-was-modified")
	verif_assert(!leaked, "C26/content-or-listing-from-outside-the-allowed-paths-returned")
	out := verif_fs_outside(root+"/a:"+root+"/m", "create,write,openw,mkdir,remove,chmod,symlink,link,read,list")
	if out != "" {
		verif_log("access", out)
	}
	verif_assert(out == "", "C26/operation-on-a-real-path-outside-the-allowed-paths")
}

func harnessC26Op()      { c26Op(false) }
func harnessC26Witness() { c26Op(true) }

// with no allowed paths nothing is touched, whatever the request
func harnessC26Empty() {
	root := verif_fs_path("r")
	c26Tree(root)
	h := NewStreamHandler(StreamConfig{Enabled: true})
	p := c26Path(root)
	before := verif_fs_digest(root, root+"/none")
	verif_fs_log_reset()
	meta := &TransferMetadata{Path: p, Mode: 0o644, Size: 1}
	verif_assert(h.ValidateUploadMetadata(meta) != nil, "C26/upload-accepted-with-empty-allow-list")
	verif_assert(h.ValidateDownloadMetadata(meta) != nil, "C26/download-accepted-with-empty-allow-list")
	acts := []string{"list", "stat", "chmod", "delete", "roots"}
	resp := h.Browse(&BrowseRequest{Action: acts[verif_choose(len(acts))], Path: p, Mode: "0600", Recursive: true})
	verif_reach("C26/empty")
	verif_assert(resp.Error != "", "C26/browse-answered-with-empty-allow-list")
	verif_assert(verif_fs_digest(root, root+"/none") == before, "C26/filesystem-changed-with-empty-allow-list")
	verif_assert(verif_fs_outside(root+"/none", "create,write,openw,mkdir,remove,chmod,symlink,link,read,list") == "", "C26/filesystem-touched-with-empty-allow-list")
}

// lexical kernel: a path of arbitrary ASCII bytes accepted by validatePath is,
// once cleaned, the allowed directory or below it
func harnessC26Lexical() {
	n := 1 + verif_choose(c26LexLen)
	b := verif_nondet_bytes(n)
	for i := range b {
		verif_assume(b[i] < 0x80)
	}
	p := string(b)
	var pats []string
	switch verif_choose(3) {
	case 0:
		pats = []string{"/a"}
	case 1:
		pats = []string{"/a/**"}
	case 2:
		pats = []string{"/a/*"}
	}
	h := NewStreamHandler(StreamConfig{Enabled: true, AllowedPaths: pats})
	err := h.validatePath(p)
	verif_reach("C26/lexical")
	if err != nil {
		return
	}
	verif_reach("C26/lexical-accepted")
	c := normalizePath(p)
	under := c == "/a" || strings.HasPrefix(c, "/a/")
	verif_assert(under, "C26/accepted-path-is-lexically-outside-the-allowed-directory")
	verif_assert(!strings.Contains(c, ".."), "C26/accepted-path-keeps-a-traversal-component")
}
