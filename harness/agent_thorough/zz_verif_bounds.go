package agent

const (
	c19Steps   = 4
	c07Classes = 9
)
