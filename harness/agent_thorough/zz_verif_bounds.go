package agent

const (
	c19Steps   = 4
	c04Payload = 8 // application bytes per write/datagram/echo: 1..c04Payload
	c07Classes = 9
)
