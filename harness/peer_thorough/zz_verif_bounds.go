package peer

const c31Steps = 7
