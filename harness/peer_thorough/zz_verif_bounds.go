package peer

const (
	c31Steps = 7
	c32Steps = 7
)
