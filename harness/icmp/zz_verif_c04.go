package icmp

import (
	"github.com/postalsys/muti-metroo/internal/crypto"
	"github.com/postalsys/muti-metroo/internal/identity"
)

// C04 (ICMP exit return path): the reply payload is sealed by Session.Encrypt;
// a Close landing at any moment must not turn that into a plaintext pass-through.
func harnessC04ICMPSessionClose() {
	s := NewSession(5, 7, identity.AgentID{2}, nil)
	var secret, ip, rp [crypto.KeySize]byte
	secret[0] = 1
	s.SetSessionKey(crypto.DeriveSessionKey(secret, 7, ip, rp, false))
	p := verif_nondet_bytes(2)
	var ct []byte
	var err error
	done := false
	go func() {
		ct, err = s.Encrypt(p)
		done = true
	}()
	s.Close()
	verif_drain()
	verif_reach("C04/icmp-session-close")
	verif_assert(done, "C04/icmp-encrypt-did-not-finish")
	if err == nil {
		verif_assert(verif_taint_free(ct, p), "C04/icmp-exit-return-carries-application-bytes-in-clear")
		verif_assert(len(ct) == len(p)+crypto.EncryptionOverhead, "C04/icmp-exit-return-not-sealed")
	}
}
