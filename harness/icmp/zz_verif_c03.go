package icmp

import (
	"github.com/postalsys/muti-metroo/internal/crypto"
	"github.com/postalsys/muti-metroo/internal/protocol"
)

type c03Closer struct{}

func (c03Closer) Close() error { return nil }

// C03 (ICMP exit responder): performKeyExchange installs the key the ingress derives.
func harnessC03ICMPResponder() {
	h := &Handler{}
	sess := &Session{}
	ipriv, ipub, _ := crypto.GenerateEphemeralKeypair()
	open := &protocol.ICMPOpen{RequestID: verif_nondet_u64(), EphemeralPubKey: ipub}
	rpub, err := h.performKeyExchange(sess, open, ipub, c03Closer{})
	verif_reach("C03/icmp-responder")
	verif_assert(err == nil, "C03/icmp-responder-refused-honest-key")
	rk := sess.GetSessionKey()
	verif_assert(rk != nil, "C03/icmp-no-session-key-installed")
	s, err := crypto.ComputeECDH(ipriv, rpub)
	verif_assert(err == nil, "C03/icmp-ack-key-refused")
	verif_assert(crypto.DeriveSessionKey(s, open.RequestID, ipub, rpub, true).Key() == rk.Key(), "C03/icmp-exit-key-differs-from-ingress-key")
}
