package icmp

import (
	"github.com/postalsys/muti-metroo/internal/crypto"
	"github.com/postalsys/muti-metroo/internal/identity"
	"github.com/postalsys/muti-metroo/internal/protocol"
)

type c03Closer struct{}

func (c03Closer) Close() error { return nil }

// C03 (ICMP exit responder): performKeyExchange installs the key the ingress derives.
func harnessC03ICMPResponder() {
	h := &Handler{}
	sess := &Session{}
	ipriv, ipub, _ := crypto.GenerateEphemeralKeypair()
	open := &protocol.ICMPOpen{RequestID: verif_nondet_u64(), EphemeralPubKey: ipub}
	rpub, err := h.performKeyExchange(sess, open, ipub, c03Closer{})
	verif_reach("C03/icmp-responder")
	verif_assert(err == nil, "C03/icmp-responder-refused-honest-key")
	rk := sess.GetSessionKey()
	verif_assert(rk != nil, "C03/icmp-no-session-key-installed")
	s, err := crypto.ComputeECDH(ipriv, rpub)
	verif_assert(err == nil, "C03/icmp-ack-key-refused")
	verif_assert(crypto.DeriveSessionKey(s, open.RequestID, ipub, rpub, true).Key() == rk.Key(), "C03/icmp-exit-key-differs-from-ingress-key")
}

// an all-zero or low-order remote key is refused: no session key on the session
func harnessC03ICMPDegenerate() {
	h := &Handler{writer: c03NopWriter{}}
	sess := &Session{}
	var k [crypto.KeySize]byte
	k[0], k[31] = verif_nondet_u8(), verif_nondet_u8()
	open := &protocol.ICMPOpen{RequestID: verif_nondet_u64(), EphemeralPubKey: k}
	_, err := h.performKeyExchange(sess, open, k, c03Closer{})
	verif_reach("C03/icmp-degenerate")
	if err != nil {
		verif_reach("C03/icmp-degenerate-refused")
		verif_assert(sess.GetSessionKey() == nil, "C03/icmp-key-installed-after-refused-key-agreement")
	} else {
		verif_assert(sess.GetSessionKey() != nil, "C03/icmp-no-session-key-installed")
	}
	if k == ([crypto.KeySize]byte{}) {
		verif_assert(err != nil, "C03/icmp-accepted-all-zero-remote-key")
	}
}

type c03NopWriter struct{}

func (c03NopWriter) WriteICMPOpenAck(identity.AgentID, uint64, *protocol.ICMPOpenAck) error {
	return nil
}
func (c03NopWriter) WriteICMPOpenErr(identity.AgentID, uint64, *protocol.ICMPOpenErr) error {
	return nil
}
func (c03NopWriter) WriteICMPEcho(identity.AgentID, uint64, *protocol.ICMPEcho) error { return nil }
func (c03NopWriter) WriteICMPClose(identity.AgentID, uint64, uint8) error             { return nil }
