package transport

// C38: stream identifiers unique per connection and parity-separated by role.
// Atomic-step induction: Next() is one atomic add, so any interleaving of any
// number of callers is a sequence of such steps from some counter value.

func harnessC38Step() {
	isDialer := verif_nondet_bool()
	a := NewStreamIDAllocator(isDialer)
	start := a.next.Load()
	verif_assert(start != 0, "C38/start-nonzero")
	verif_assert((start%2 == 1) == isDialer, "C38/start-parity")
	// arbitrary reachable pre-state: next = start + 2k, no wrap (bound: < 2^63 allocations)
	k := verif_nondet_u64()
	verif_assume(k < (1 << 62))
	a.next.Store(start + 2*k)
	pre := a.next.Load()
	id := a.Next()
	post := a.next.Load()
	verif_reach("C38/step")
	verif_assert(id != 0, "C38/nonzero")
	verif_assert((id%2 == 1) == isDialer, "C38/parity")
	verif_assert(id == pre, "C38/returns-pre-state")
	verif_assert(post == pre+2 && post > pre, "C38/strictly-increasing")
	// issued set is {start, start+2, ..., pre-2}: id not in it because id == pre >= every issued + 2
	j := verif_nondet_u64()
	verif_assume(j < k)
	verif_assert(start+2*j != id, "C38/unique")
	verif_assert(a.IsDialer() == isDialer, "C38/role")
}

// The two ends of a connection never allocate the same identifier.
func harnessC38Disjoint() {
	d := NewStreamIDAllocator(true)
	l := NewStreamIDAllocator(false)
	kd, kl := verif_nondet_u64(), verif_nondet_u64()
	verif_assume(kd < (1<<62) && kl < (1<<62))
	d.next.Store(d.next.Load() + 2*kd)
	l.next.Store(l.next.Load() + 2*kl)
	x, y := d.Next(), l.Next()
	verif_reach("C38/disjoint")
	verif_assert(x != y, "C38/dialer-listener-disjoint")
	verif_assert(x%2 == 1 && y%2 == 0, "C38/roles-parity")
}

// Bounded concurrent cross-check: two goroutines, two allocations each, all
// interleavings at the atomic operations.
func harnessC38Concurrent() {
	a := NewStreamIDAllocator(verif_nondet_bool())
	var ids [4]uint64
	done := make(chan struct{}, 2)
	for g := 0; g < 2; g++ {
		g := g
		go func() {
			ids[2*g] = a.Next()
			ids[2*g+1] = a.Next()
			done <- struct{}{}
		}()
	}
	<-done
	<-done
	verif_reach("C38/concurrent")
	for i := 0; i < 4; i++ {
		verif_assert(ids[i] != 0, "C38/conc-nonzero")
		for j := i + 1; j < 4; j++ {
			verif_assert(ids[i] != ids[j], "C38/conc-unique")
		}
	}
}

func harnessC38Witness() {
	a := NewStreamIDAllocator(verif_nondet_bool())
	_ = a.Next()
	verif_assert(false, "witness")
}
