package config

// C37: variable expansion is single-pass and follows the documented forms.
// Differential check of the real expandEnvVars (regexp engine interpreted from
// source on symbolic bytes) against a small reference scanner; the environment
// is a harness table (os.LookupEnv is replaced in props).

var (
	c37Names [2]string
	c37Vals  [2]string
	c37Set   [2]bool
)

func c37LookupEnv(name string) (string, bool) {
	for i := range c37Names {
		if c37Set[i] && c37Names[i] == name {
			return c37Vals[i], true
		}
	}
	return "", false
}

func c37IsStart(c byte) bool {
	return (c >= 'A' && c <= 'Z') || (c >= 'a' && c <= 'z') || c == '_'
}
func c37IsCont(c byte) bool { return c37IsStart(c) || (c >= '0' && c <= '9') }

func c37Subst(name, match string) string {
	for k := 0; k+1 < len(name); k++ {
		if name[k] == ':' && name[k+1] == '-' {
			if v, ok := c37LookupEnv(name[:k]); ok {
				return v
			}
			return name[k+2:]
		}
	}
	if v, ok := c37LookupEnv(name); ok {
		return v
	}
	return match
}

// reference: one left-to-right pass, substituted text is never rescanned
func c37Ref(s string) string {
	out := ""
	i := 0
	for i < len(s) {
		if s[i] != '$' || i+1 >= len(s) {
			out += s[i : i+1]
			i++
			continue
		}
		if s[i+1] == '{' {
			j := i + 2
			for j < len(s) && s[j] != '}' {
				j++
			}
			if j < len(s) && j > i+2 {
				out += c37Subst(s[i+2:j], s[i:j+1])
				i = j + 1
				continue
			}
			out += "$"
			i++
			continue
		}
		if c37IsStart(s[i+1]) {
			j := i + 2
			for j < len(s) && c37IsCont(s[j]) {
				j++
			}
			out += c37Subst(s[i+1:j], s[i:j])
			i = j
			continue
		}
		out += "$"
		i++
	}
	return out
}

func c37Text(n int) string {
	b := verif_nondet_bytes(n)
	for i := range b {
		// the bytes the expansion logic distinguishes, plus a digit and a plain character
		verif_assume(b[i] == '$' || b[i] == '{' || b[i] == '}' || b[i] == ':' || b[i] == '-' || b[i] == 'A' || b[i] == '_' || b[i] == '1' || b[i] == '.')
	}
	return string(b)
}

func harnessC37Diff() {
	// environment: variable "A" and one more single-character variable may be set;
	// values may themselves contain expansion syntax
	c37Names = [2]string{"A", "_"}
	for i := range c37Vals {
		c37Set[i] = verif_nondet_bool()
		c37Vals[i] = c37Text(verif_choose(3))
	}
	s := c37Text(c37MinLen + verif_choose(c37MaxLen-c37MinLen+1))
	got := expandEnvVars(s)
	want := c37Ref(s)
	verif_reach("C37/diff")
	verif_assert(got == want, "C37/expansion-differs-from-single-pass-reference")
	hasDollar := false
	for i := 0; i < len(s); i++ {
		hasDollar = hasDollar || s[i] == '$'
	}
	if !hasDollar {
		verif_assert(got == s, "C37/text-without-dollar-changed")
	}
}

func harnessC37Witness() {
	c37Names = [2]string{"A", "_"}
	c37Set = [2]bool{true, false}
	c37Vals[0] = "${A}"
	if expandEnvVars(c37Text(2)) == "${A}" {
		verif_assert(false, "witness")
	}
}

func c37Getenv(name string) string {
	v, _ := c37LookupEnv(name)
	return v
}

// the ${NAME:-default} form is longer than the free-text bound of harnessC37Diff:
// structured text around one such reference, symbolic name, default, and
// environment (a variable may be set to the empty string)
func harnessC37Default() {
	c37Names = [2]string{"A", "_"}
	vals := []string{"", "v", "${A}"}
	for i := range c37Vals {
		c37Set[i] = verif_nondet_bool()
		c37Vals[i] = vals[verif_choose(3)]
	}
	name := c37Text(1)
	def := c37Text(verif_choose(2))
	s := "${" + name + ":-" + def + "}" + c37Text(verif_choose(2))
	got := expandEnvVars(s)
	want := c37Ref(s)
	verif_reach("C37/default-form")
	verif_assert(got == want, "C37/default-form-differs-from-single-pass-reference")
}
