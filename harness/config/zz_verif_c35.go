package config

// C35: the redacted configuration never reveals a secret, and producing it
// never changes the original. yaml.Marshal/Unmarshal are a faithful deep copy
// (box/unbox); the rendering is represented by the redacted structure.

func c35Secret() string {
	s := verif_nondet_string(3)
	return s
}

func harnessC35Redacted() {
	c := Default()
	np, nl, nu := verif_choose(3), verif_choose(3), verif_choose(3)
	var secrets []string
	// every group of secrets is independently configured or left empty (a configuration
	// may hold TLS keys only, passwords only, ...)
	var on [7]bool
	for i := range on {
		on[i] = verif_nondet_bool()
	}
	grp := 0
	add := func() string {
		if !on[grp] {
			return ""
		}
		s := c35Secret()
		secrets = append(secrets, s)
		return s
	}
	c.TLS.Key, c.TLS.KeyPEM = add(), add()
	grp = 1
	c.Peers = nil
	for i := 0; i < np; i++ {
		var p PeerConfig
		p.Address = "peer:1"
		p.ProxyAuth.Username = "user"
		grp = 1
		p.ProxyAuth.Password = add()
		grp = 0
		p.TLS.Key, p.TLS.KeyPEM = add(), add()
		c.Peers = append(c.Peers, p)
	}
	c.Listeners = nil
	for i := 0; i < nl; i++ {
		var l ListenerConfig
		l.Address = "listen:1"
		grp = 0
		l.TLS.Key, l.TLS.KeyPEM = add(), add()
		c.Listeners = append(c.Listeners, l)
	}
	c.SOCKS5.Auth.Users = nil
	grp = 2
	for i := 0; i < nu; i++ {
		c.SOCKS5.Auth.Users = append(c.SOCKS5.Auth.Users, SOCKS5UserConfig{Username: "u", Password: add(), PasswordHash: add()})
	}
	grp = 3
	c.Agent.PrivateKey = add()
	grp = 4
	c.FileTransfer.PasswordHash = add()
	grp = 5
	c.Shell.PasswordHash = add()
	grp = 6
	c.Management.PrivateKey = add()
	c.Management.SigningPrivateKey = add()

	r := c.Redacted()
	verif_reach("C35/redacted")
	verif_assert(r != c, "C35/redaction-failed-open")
	// no string anywhere in the redacted structure equals a secret
	for _, t := range verif_strings_of(r) {
		if len(t) != 3 {
			continue
		}
		for _, s := range secrets {
			verif_assert(t != s, "C35/secret-value-in-redacted-output")
		}
	}
	// the original still holds every secret
	got := verif_strings_of(c)
	n := 0
	for _, t := range got {
		if len(t) == 3 {
			n++
		}
	}
	verif_assert(n >= len(secrets), "C35/original-configuration-modified")
	if on[0] {
		verif_assert(c.TLS.Key == secrets[0], "C35/original-secret-fields-modified")
	}
	if on[3] {
		verif_assert(c.Agent.PrivateKey != "" && len(c.Agent.PrivateKey) == 3, "C35/original-secret-fields-modified")
	}
	// non-secret fields survive
	if np > 0 {
		verif_assert(len(r.Peers) == np && r.Peers[0].Address == "peer:1" && r.Peers[0].ProxyAuth.Username == "user", "C35/non-secret-fields-kept")
	}
}

func harnessC35Witness() {
	c := Default()
	c.Agent.PrivateKey = c35Secret()
	r := c.Redacted()
	if r.Agent.PrivateKey != "" {
		verif_assert(false, "witness")
	}
}
