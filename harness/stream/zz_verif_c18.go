package stream

import (
	"context"

	"github.com/postalsys/muti-metroo/internal/identity"
	"github.com/postalsys/muti-metroo/internal/protocol"
)

// C18: half-close and close per protocol, for every frame sequence and every
// interleaving of the delivery thread with a concurrent reader.

func c18Manager() (*Manager, *Stream) {
	var id identity.AgentID
	id[0] = 1
	m := NewManager(DefaultManagerConfig(), id)
	s := NewStream(5, id, id, 9)
	s.Open()
	m.streams[5] = s
	return m, s
}

// data that arrives before or together with the remote FIN is delivered before EOF
func harnessC18FinData() {
	m, s := c18Manager()
	d1, d2 := verif_nondet_bytes(1), verif_nondet_bytes(1)
	var got [][]byte
	done := make(chan struct{})
	go func() {
		for {
			d, err := s.Read(context.Background())
			if err != nil {
				break
			}
			got = append(got, d)
		}
		close(done)
	}()
	withFirst := verif_nondet_bool()
	if withFirst {
		m.HandleStreamData(5, 0, d1)
	}
	finCarriesData := verif_nondet_bool()
	if finCarriesData {
		m.HandleStreamData(5, protocol.FlagFinWrite, d2)
	} else {
		m.HandleStreamData(5, 0, d2)
		m.HandleStreamData(5, protocol.FlagFinWrite, nil)
	}
	<-done
	verif_reach("C18/fin-data")
	want := 1
	if withFirst {
		want = 2
	}
	verif_assert(len(got) == want, "C18/data-with-or-before-fin-lost")
	if len(got) == want {
		verif_assert(got[want-1][0] == d2[0], "C18/data-order")
		if withFirst {
			verif_assert(got[0][0] == d1[0], "C18/data-order")
		}
	}
	verif_assert(s.State() == StateHalfClosedRemote, "C18/state-after-remote-fin")
}

// state machine: one operation from every state
func harnessC18States() {
	_, s := c18Manager()
	start := StreamState(1 + verif_choose(4)) // Open, HalfClosedLocal, HalfClosedRemote, Closed
	s.SetState(start)
	s.localFinWrite = start == StateHalfClosedLocal
	s.remoteFinWrite = start == StateHalfClosedRemote
	if start == StateHalfClosedRemote {
		close(s.remoteFinCh)
	}
	op := verif_choose(3)
	switch op {
	case 0:
		s.CloseWrite()
	case 1:
		s.HandleRemoteFinWrite()
	case 2:
		s.Close()
	}
	end := s.State()
	verif_reach("C18/states")
	ok := end == start
	switch {
	case op == 0 && start == StateOpen:
		ok = end == StateHalfClosedLocal
	case op == 0 && start == StateHalfClosedRemote:
		ok = end == StateClosed
	case op == 1 && start == StateOpen:
		ok = end == StateHalfClosedRemote
	case op == 1 && start == StateHalfClosedLocal:
		ok = end == StateClosed
	case op == 2:
		ok = end == StateClosed
	}
	verif_assert(ok, "C18/undocumented-state-transition")
	if op == 0 {
		verif_assert(!s.CanWrite(), "C18/write-allowed-after-local-half-close")
		if start == StateOpen {
			verif_assert(s.CanRead(), "C18/read-refused-after-local-half-close")
			// reads continue: pushed data is still delivered
			verif_assert(s.PushData([]byte{7}) == nil, "C18/push-refused-after-local-half-close")
			d, err := s.Read(context.Background())
			verif_assert(err == nil && len(d) == 1 && d[0] == 7, "C18/read-fails-after-local-half-close")
		}
	}
}

// a close or reset tears down only the addressed stream
func harnessC18Teardown() {
	m, s := c18Manager()
	other := NewStream(6, s.LocalID, s.RemoteID, 10)
	other.Open()
	m.streams[6] = other
	other.PushData([]byte{3})
	id := uint64(5 + verif_choose(3)) // 5, 6 or an unknown id
	if verif_nondet_bool() {
		m.HandleStreamClose(id)
	} else {
		m.HandleStreamReset(id, 1)
	}
	verif_reach("C18/teardown")
	for _, x := range []*Stream{s, other} {
		if x.ID == id {
			verif_assert(x.IsClosed() && m.GetStream(x.ID) == nil, "C18/addressed-stream-not-torn-down")
		} else {
			verif_assert(!x.IsClosed() && m.GetStream(x.ID) == x && x.State() == StateOpen, "C18/teardown-hit-another-stream")
		}
	}
	if id != 6 {
		d, err := other.Read(context.Background())
		verif_assert(err == nil && d[0] == 3, "C18/teardown-lost-other-stream-data")
	}
}

func harnessC18Witness() {
	m, s := c18Manager()
	m.HandleStreamData(5, protocol.FlagFinWrite, verif_nondet_bytes(1))
	d, err := s.Read(context.Background())
	if err == nil && len(d) == 1 {
		verif_assert(false, "witness")
	}
}

// both halves close concurrently (local CloseWrite racing the remote FIN, in
// every interleaving at lock granularity): the stream ends CLOSED, writes are
// refused, and no undocumented transition is left behind
func harnessC18CloseRace() {
	_, s := c18Manager()
	go s.HandleRemoteFinWrite()
	s.CloseWrite()
	verif_drain()
	verif_reach("C18/close-race")
	verif_assert(s.State() == StateClosed, "C18/undocumented-state-transition")
	verif_assert(!s.CanWrite(), "C18/write-allowed-after-local-half-close")
}
