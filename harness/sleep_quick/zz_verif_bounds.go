package sleep

const c30Steps = 5
