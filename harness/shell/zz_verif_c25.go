package shell

import "golang.org/x/crypto/bcrypt"

// C25: the remote shell runs only authorised commands.

const c25Meta = ";&|$`(){}[]<>\\!*?~"

func c25Dangerous(s string) bool {
	d := false
	for i := 0; i < len(s); i++ {
		for j := 0; j < len(c25Meta); j++ {
			d = d || s[i] == c25Meta[j]
		}
	}
	return d
}

// ASCII strings (the argument filter decodes runes; multi-byte input is outside the bound)
func c25Str(max int) string {
	b := verif_nondet_bytes(verif_choose(max + 1))
	for i := range b {
		verif_assume(b[i] < 0x80)
	}
	return string(b)
}

func harnessC25Validate() {
	var cfg Config
	cfg.Enabled = verif_nondet_bool()
	switch verif_choose(4) {
	case 1:
		cfg.Whitelist = []string{"*"}
	case 2:
		cfg.Whitelist = []string{c25Str(2)}
	case 3:
		cfg.Whitelist = []string{"ls", c25Str(2)}
	}
	hasHash := verif_nondet_bool()
	if hasHash {
		cfg.PasswordHash = verif_nondet_string(2)
	}
	cfg.MaxSessions = verif_choose(2)
	e := NewExecutor(cfg)
	pre := verif_choose(2)
	e.sessions = pre
	meta := &ShellMeta{Command: c25Str(2), Password: c25Str(1)}
	na := verif_choose(3)
	for i := 0; i < na; i++ {
		meta.Args = append(meta.Args, c25Str(c25ArgLen))
	}
	err := e.validateAndAcquire(meta)
	verif_reach("C25/validate")
	if err != nil {
		verif_assert(e.sessions == pre, "C25/refused-request-consumed-a-session")
		return
	}
	verif_reach("C25/accepted")
	verif_assert(cfg.Enabled, "C25/started-while-disabled")
	if hasHash {
		// bcrypt is uninterpreted: acceptance requires the comparison to have succeeded
		verif_assert(meta.Password != "", "C25/empty-password-accepted")
		// reference independent of the code under test: bcrypt reports a match (nil); a mismatch or
		// a malformed stored hash are both refusals
		verif_assert(bcrypt.CompareHashAndPassword([]byte(cfg.PasswordHash), []byte(meta.Password)) == nil, "C25/password-mismatch-accepted")
	}
	wild := false
	inList := false
	for _, w := range cfg.Whitelist {
		wild = wild || w == "*"
		inList = inList || w == meta.Command
	}
	verif_assert(len(cfg.Whitelist) > 0, "C25/empty-whitelist-accepted")
	if !wild {
		verif_assert(inList, "C25/command-not-whitelisted")
		slash := false
		for i := 0; i < len(meta.Command); i++ {
			slash = slash || meta.Command[i] == '/' || meta.Command[i] == '\\'
		}
		verif_assert(!slash, "C25/command-with-path-accepted")
		for _, a := range meta.Args {
			verif_assert(!c25Dangerous(a), "C25/argument-with-metacharacter-accepted")
			verif_assert(!(len(a) > 0 && a[0] == '/'), "C25/absolute-path-argument-accepted")
		}
	}
	verif_assert(e.sessions == pre+1, "C25/session-not-counted")
	if cfg.MaxSessions > 0 {
		verif_assert(pre < cfg.MaxSessions && e.sessions <= cfg.MaxSessions, "C25/session-limit-exceeded")
	}
}

// session counter: atomic-step induction with lockset check
func harnessC25Sessions() {
	max := verif_nondet_int()
	verif_assume(max >= 0 && max < 1000)
	e := NewExecutor(Config{Enabled: true, MaxSessions: max})
	verif_guarded(&e.sessions, &e.mu)
	n := verif_nondet_int()
	verif_assume(n >= 0 && (max == 0 || n <= max)) // invariant
	e.mu.Lock()
	e.sessions = n
	e.mu.Unlock()
	if verif_nondet_bool() {
		err := e.AcquireSession()
		verif_reach("C25/acquire")
		if max > 0 {
			verif_assert(e.ActiveSessions() <= max, "C25/concurrent-sessions-exceed-maximum")
			verif_assert((err == nil) == (n < max), "C25/acquire-iff-below-maximum")
		} else {
			verif_assert(err == nil, "C25/unlimited-acquire")
		}
	} else {
		e.ReleaseSession()
		verif_reach("C25/release")
		verif_assert(e.ActiveSessions() >= 0 && e.ActiveSessions() <= n, "C25/release-never-negative")
	}
}

func harnessC25Witness() {
	e := NewExecutor(Config{Enabled: true, Whitelist: []string{"ls"}})
	if e.validateAndAcquire(&ShellMeta{Command: c25Str(2), Args: []string{c25Str(1)}}) == nil {
		verif_assert(false, "witness")
	}
}
