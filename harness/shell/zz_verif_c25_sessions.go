package shell

import (
	"context"
	"errors"
	"io"
	"log/slog"
	"os/exec"

	"github.com/postalsys/muti-metroo/internal/identity"
)

// C25 (session limit under concurrent requests): a streaming request whose
// process fails to start, racing with the close of the same stream, must not
// give back a slot that belongs to another live session.

type c25Writer struct{}

func (c25Writer) WriteStreamData(identity.AgentID, uint64, []byte, uint8) error { return nil }
func (c25Writer) WriteStreamClose(identity.AgentID, uint64) error               { return nil }

type c25Pipe struct{}

func (c25Pipe) Read(p []byte) (int, error)  { return 0, io.EOF }
func (c25Pipe) Write(p []byte) (int, error) { return len(p), nil }
func (c25Pipe) Close() error                { return nil }

// replacements for os/exec and the JSON codecs (see props/C25.json)
var c25StartFails bool

func c25Command(ctx context.Context, name string, arg ...string) *exec.Cmd {
	return &exec.Cmd{Path: name}
}
func c25StdinPipe(c *exec.Cmd) (io.WriteCloser, error) { return c25Pipe{}, nil }
func c25OutPipe(c *exec.Cmd) (io.ReadCloser, error)    { return c25Pipe{}, nil }
func c25CmdStart(c *exec.Cmd) error {
	if c25StartFails {
		return errors.New("exec: not found")
	}
	return nil
}
func c25CmdWait(c *exec.Cmd) error                     { return nil }
func c25DecodeMeta(payload []byte) (*ShellMeta, error) { return &ShellMeta{Command: "ls"}, nil }
func c25EncodeError(e *ShellError) ([]byte, error)     { return []byte{MsgError}, nil }

func harnessC25StartFailureRace() {
	e := NewExecutor(Config{Enabled: true, Whitelist: []string{"ls"}, MaxSessions: 2})
	h := NewHandler(e, c25Writer{}, slog.Default())
	// another session is alive and holds one slot
	verif_assert(e.AcquireSession() == nil, "C25/setup")
	ss := &ShellStream{StreamID: 2, PeerID: identity.AgentID{1}}
	h.streams[2] = ss
	c25StartFails = true
	// the peer closes the stream while the request is being processed
	go h.HandleStreamClose(2)
	h.handleMetadata(ss, EncodeMessage(MsgMeta, []byte{'{', '}'}))
	verif_drain()
	for i := 0; i < 4 && verif_timers() > 0; i++ {
		verif_fire_timer(0)
		verif_drain()
	}
	verif_reach("C25/start-failure-race")
	verif_assert(e.ActiveSessions() == 1, "C25/slot-of-another-live-session-released")
	// so that a further request cannot push the real number of sessions beyond the maximum
	verif_assert(e.AcquireSession() == nil && e.AcquireSession() != nil, "C25/concurrent-sessions-exceed-maximum")
}

// two requests race for the last free slot (every interleaving at lock
// granularity): at most one gets it
func harnessC25AcquireRace() {
	e := NewExecutor(Config{Enabled: true, MaxSessions: 2})
	verif_assert(e.AcquireSession() == nil, "C25/setup")
	var errA, errB error
	done := false
	go func() {
		errA = e.AcquireSession()
		done = true
	}()
	errB = e.AcquireSession()
	verif_drain()
	verif_reach("C25/acquire-race")
	verif_assert(done, "C25/acquire-did-not-finish")
	verif_assert(errA != nil || errB != nil, "C25/concurrent-sessions-exceed-maximum")
	verif_assert(errA == nil || errB == nil, "C25/free-slot-refused-to-both-requests")
	verif_assert(e.ActiveSessions() == 2, "C25/concurrent-sessions-exceed-maximum")
}
