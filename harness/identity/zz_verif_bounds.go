package identity

// crash points explored: before each of the first c34MaxSteps filesystem steps, and no crash
const c34MaxSteps = 9
