package identity

import "strings"

// C34: persistent agent state survives a crash at any point (identity part).
// The model filesystem counts atomic steps; the harness schedules a crash after
// k steps (a crash inside a write leaves a prefix), then starts again.

const c34Dir = "/vfs/data"

func c34Bytes(p string) ([]byte, bool) { return verif_fs_read(p) }

func c34Same(a, b []byte) bool {
	if len(a) != len(b) {
		return false
	}
	eq := true
	for i := range a {
		eq = eq && a[i] == b[i]
	}
	return eq
}

func harnessC34Keypair() {
	k := verif_choose(c34MaxSteps + 1) // crash before step k (k == c34MaxSteps: usually no crash)
	crashed := true
	func() {
		defer func() { recover() }()
		verif_fs_crash_after(k)
		LoadOrCreateKeypair(c34Dir)
		crashed = false
	}()
	verif_fs_crash_after(-1)
	if crashed {
		verif_reach("C34/keypair-crashed")
	}
	before, hadKey := c34Bytes(c34Dir + "/" + keyFileName)
	// next start
	kp, _, err := LoadOrCreateKeypair(c34Dir)
	verif_reach("C34/keypair-restart")
	verif_assert(err == nil, "C34/restart-after-crash-fails")
	if err != nil {
		return
	}
	verif_assert(kp.PublicKey == DerivePublicKey(kp.PrivateKey), "C34/public-key-does-not-match-private-key")
	after, ok := c34Bytes(c34Dir + "/" + keyFileName)
	verif_assert(ok, "C34/private-key-not-stored-after-restart")
	if hadKey {
		verif_assert(c34Same(before, after), "C34/stored-private-key-silently-replaced")
		verif_assert(KeyToString(kp.PrivateKey)+"\n" == string(before), "C34/loaded-key-is-not-the-stored-one")
	}
	// and a third start sees the same identity
	kp3, created, err3 := LoadOrCreateKeypair(c34Dir)
	verif_assert(err3 == nil && !created && kp3.PrivateKey == kp.PrivateKey, "C34/identity-not-stable-across-restarts")
}

func harnessC34AgentID() {
	k := verif_choose(c34MaxSteps + 1)
	func() {
		defer func() { recover() }()
		verif_fs_crash_after(k)
		LoadOrCreate(c34Dir)
	}()
	verif_fs_crash_after(-1)
	before, had := c34Bytes(c34Dir + "/" + idFileName)
	id, _, err := LoadOrCreate(c34Dir)
	if err != nil && strings.Contains(err.Error(), "zero agent ID") {
		return // the random generator produced the all-zero identity (probability 2^-128): excluded
	}
	verif_reach("C34/agentid-restart")
	verif_assert(err == nil && !id.IsZero(), "C34/agent-id-restart-after-crash-fails")
	if err != nil {
		return
	}
	if had {
		verif_assert(id.String()+"\n" == string(before), "C34/stored-agent-id-silently-replaced")
	}
	id3, created, err3 := LoadOrCreate(c34Dir)
	verif_assert(err3 == nil && !created && id3 == id, "C34/agent-id-not-stable-across-restarts")
}

func harnessC34Witness() {
	func() {
		defer func() { recover() }()
		verif_fs_crash_after(5)
		LoadOrCreateKeypair(c34Dir)
	}()
	verif_fs_crash_after(-1)
	if _, ok := c34Bytes(c34Dir + "/" + keyFileName); ok {
		if !verif_fs_exists(c34Dir + "/" + pubKeyFileName) {
			verif_assert(false, "witness")
		}
	}
}
