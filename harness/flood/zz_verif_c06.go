package flood

import (
	"net"

	"github.com/postalsys/muti-metroo/internal/identity"
	"github.com/postalsys/muti-metroo/internal/protocol"
)

// C06: route announcements arrive intact for any local route set.
// The sender stub is the neighbour: it runs the real Frame.Encode (size limit)
// and the real decoder on every frame and the harness compares the decoded
// route multiset with what the agent originates. The number of routes is
// case-split (including the one-byte count boundary); route contents are
// symbolic for the first and last route.

func c06Check(nCIDR, nDomain int) {
	f, snd, rm := fNew(0, []identity.AgentID{fID(0)})
	for i := 0; i < nCIDR; i++ {
		// distinct networks: the first and the last carry symbolic bytes in their own /16
		ip := net.IP{10, 9, byte(i >> 8), byte(i)}
		if i == 0 {
			ip = net.IP{10, 8, verif_nondet_u8(), verif_nondet_u8()}
		} else if i == nCIDR-1 {
			ip = net.IP{10, 7, verif_nondet_u8(), verif_nondet_u8()}
		}
		rm.AddLocalRoute(&net.IPNet{IP: ip, Mask: net.CIDRMask(32, 32)}, uint16(i))
	}
	for i := 0; i < nDomain; i++ {
		name := []byte("d000.example")
		name[1], name[2], name[3] = byte('0'+i/100), byte('0'+(i/10)%10), byte('0'+i%10)
		rm.AddLocalDomainRoute(string(name), uint16(i))
	}
	want := nCIDR + nDomain + 1 // plus the agent-presence route
	f.AnnounceLocalRoutes()
	verif_reach("C06/announce")
	// every frame must be encodable and decodable; together they must carry exactly the originated set
	got := 0
	gotCIDR := 0
	for _, s := range snd.log {
		if s.f.Type != protocol.FrameRouteAdvertise {
			continue
		}
		_, err := s.f.Encode()
		verif_assert(err == nil, "C06/announcement-exceeds-frame-size")
		adv, err := protocol.DecodeRouteAdvertise(s.f.Payload)
		verif_assert(err == nil, "C06/announcement-does-not-decode-at-the-neighbour")
		if err != nil {
			return
		}
		verif_assert(adv.OriginAgent == fID(fLocal), "C06/origin")
		got += len(adv.Routes)
		for _, r := range adv.Routes {
			if r.AddressFamily == protocol.AddrFamilyIPv4 {
				gotCIDR++
				verif_assert(len(r.Prefix) == 4 && r.Prefix[0] == 10 && r.PrefixLength == 32, "C06/route-content-altered")
			}
		}
	}
	verif_assert(got == want, "C06/neighbour-decodes-a-different-number-of-routes")
	verif_assert(gotCIDR == nCIDR, "C06/cidr-routes-lost-or-duplicated")
}

func harnessC06Small() {
	c06Check(verif_choose(4), verif_choose(3))
}

// the one-byte route count: 254 local routes + presence route = 255 entries still fits
func harnessC06CountBoundaryFits() {
	c06Check(254, 0)
}

// 255 local routes + presence route = 256 entries
func harnessC06CountBoundary() {
	c06Check(255+verif_choose(2), 0)
}
