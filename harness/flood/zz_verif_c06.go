package flood

import (
	"net"

	"github.com/postalsys/muti-metroo/internal/identity"
	"github.com/postalsys/muti-metroo/internal/protocol"
)

// C06: route announcements arrive intact for any local route set.
// The sender stub is the neighbour: it runs the real Frame.Encode (size limit)
// and the real decoder on every frame and the harness compares the decoded
// route multiset with what the agent originates. The number of routes is
// case-split (including the one-byte count boundary); route contents are
// symbolic for the first and last route.

func c06Check(nCIDR, nDomain int) {
	f, snd, rm := fNew(0, []identity.AgentID{fID(0)})
	for i := 0; i < nCIDR; i++ {
		// distinct networks: the first and the last carry symbolic bytes in their own /16
		ip := net.IP{10, 9, byte(i >> 8), byte(i)}
		if i == 0 {
			ip = net.IP{10, 8, verif_nondet_u8(), verif_nondet_u8()}
		} else if i == nCIDR-1 {
			ip = net.IP{10, 7, verif_nondet_u8(), verif_nondet_u8()}
		}
		rm.AddLocalRoute(&net.IPNet{IP: ip, Mask: net.CIDRMask(32, 32)}, uint16(i))
	}
	for i := 0; i < nDomain; i++ {
		name := []byte("d000.example")
		name[1], name[2], name[3] = byte('0'+i/100), byte('0'+(i/10)%10), byte('0'+i%10)
		if i%2 == 1 {
			// the wildcard of the previous exact name: two patterns with one base domain
			name[3] = byte('0' + (i-1)%10)
			rm.AddLocalDomainRoute("*."+string(name), uint16(i))
			continue
		}
		rm.AddLocalDomainRoute(string(name), uint16(i))
	}
	want := nCIDR + nDomain + 1 // plus the agent-presence route
	f.AnnounceLocalRoutes()
	verif_reach("C06/announce")
	// every frame must be encodable and decodable; together they must carry exactly the originated set
	got := 0
	gotCIDR := 0
	for _, s := range snd.log {
		if s.f.Type != protocol.FrameRouteAdvertise {
			continue
		}
		_, err := s.f.Encode()
		verif_assert(err == nil, "C06/announcement-exceeds-frame-size")
		adv, err := protocol.DecodeRouteAdvertise(s.f.Payload)
		verif_assert(err == nil, "C06/announcement-does-not-decode-at-the-neighbour")
		if err != nil {
			return
		}
		verif_assert(adv.OriginAgent == fID(fLocal), "C06/origin")
		got += len(adv.Routes)
		for _, r := range adv.Routes {
			if r.AddressFamily == protocol.AddrFamilyIPv4 {
				gotCIDR++
				verif_assert(len(r.Prefix) == 4 && r.Prefix[0] == 10 && r.PrefixLength == 32, "C06/route-content-altered")
			}
		}
	}
	verif_assert(got == want, "C06/neighbour-decodes-a-different-number-of-routes")
	verif_assert(gotCIDR == nCIDR, "C06/cidr-routes-lost-or-duplicated")
}

func harnessC06Small() {
	c06Check(verif_choose(4), verif_choose(3))
}

// the one-byte route count: 254 local routes + presence route = 255 entries still fits
func harnessC06CountBoundaryFits() {
	c06Check(254, 0)
}

// 255 local routes + presence route = 256 entries
func harnessC06CountBoundary() {
	c06Check(255+verif_choose(2), 0)
}

// ---------- forwarded and replayed route groups ----------

type c06Key struct {
	fam  uint8
	plen uint8
	pfx  string
}

func c06KeyOf(r protocol.Route) c06Key {
	return c06Key{r.AddressFamily, r.PrefixLength, string(r.Prefix)}
}

// group announced by one origin: CIDR with symbolic bytes, exact and wildcard domain, forward key, presence
func c06Group(origin identity.AgentID, tag byte, metric uint16, third byte) []protocol.Route {
	return []protocol.Route{
		{AddressFamily: protocol.AddrFamilyIPv4, PrefixLength: 24, Prefix: []byte{10, tag, third, 0}, Metric: metric},
		{AddressFamily: protocol.AddrFamilyDomain, PrefixLength: 0, Prefix: protocol.EncodeDomainPrefix(string([]byte{tag, '.', 'e', 'x'})), Metric: metric},
		{AddressFamily: protocol.AddrFamilyDomain, PrefixLength: 1, Prefix: protocol.EncodeDomainPrefix(string([]byte{'*', '.', tag, '.', 'w'})), Metric: metric},
		{AddressFamily: protocol.AddrFamilyForward, PrefixLength: 0, Prefix: protocol.EncodeForwardKeyWithTarget(string([]byte{'k', tag}), ""), Metric: metric},
		{AddressFamily: protocol.AddrFamilyAgent, PrefixLength: 0, Prefix: protocol.EncodeAgentPrefix(origin), Metric: metric},
	}
}

func c06SameSet(got []protocol.Route, want []protocol.Route) bool {
	if len(got) != len(want) {
		return false
	}
	for _, w := range want {
		n := 0
		for _, g := range got {
			if c06KeyOf(g) == c06KeyOf(w) {
				n++
			}
		}
		if n != 1 {
			return false
		}
	}
	return true
}

// a group received from a neighbour is forwarded to the other neighbours as exactly that group
func harnessC06Forward() {
	f, snd, _ := fNew(0, []identity.AgentID{fID(0), fID(1)})
	origin := fID(2)
	m := verif_nondet_u16()
	verif_assume(m < 1000)
	grp := c06Group(origin, 'c', m, verif_nondet_u8())
	path := []identity.AgentID{fID(0), origin}
	f.HandleRouteAdvertise(fID(0), origin, "", 7, grp, &protocol.EncryptedData{Data: protocol.EncodePath(path)}, []identity.AgentID{origin, fID(0)})
	verif_reach("C06/forward")
	verif_assert(len(snd.log) == 1 && snd.log[0].to == fID(1), "C06/group-not-forwarded-once-to-the-other-neighbour")
	if len(snd.log) != 1 {
		return
	}
	adv, err := protocol.DecodeRouteAdvertise(snd.log[0].f.Payload)
	verif_assert(err == nil, "C06/forwarded-group-does-not-decode")
	if err != nil {
		return
	}
	verif_assert(adv.OriginAgent == origin && adv.Sequence == 7, "C06/forwarded-group-origin-or-sequence-altered")
	verif_assert(c06SameSet(adv.Routes, grp), "C06/forwarded-group-is-a-different-set")
}

// routes learned from two origins (one of them two hops away, through the
// other) are replayed to a new peer as one group per origin with exactly that
// origin's routes
func harnessC06Replay() {
	f, snd, rm := fNew(0, []identity.AgentID{fID(0)})
	b, c, d := fID(0), fID(2), fID(1)
	mb, mc := verif_nondet_u16(), verif_nondet_u16()
	verif_assume(mb < 1000 && mc < 1000)
	// concrete prefixes: the replay keys its de-duplication map by the printed network.
	// Each origin also announces a shorter prefix with the same base address.
	gb := append(c06Group(b, 'b', mb, 0), protocol.Route{AddressFamily: protocol.AddrFamilyIPv4, PrefixLength: 16, Prefix: []byte{10, 'b', 0, 0}, Metric: mb})
	gc := append(c06Group(c, 'c', mc, 0), protocol.Route{AddressFamily: protocol.AddrFamilyIPv4, PrefixLength: 16, Prefix: []byte{10, 'c', 0, 0}, Metric: mc})
	f.HandleRouteAdvertise(b, b, "", 3, gb, &protocol.EncryptedData{Data: protocol.EncodePath([]identity.AgentID{b})}, []identity.AgentID{b})
	f.HandleRouteAdvertise(b, c, "", 5, gc, &protocol.EncryptedData{Data: protocol.EncodePath([]identity.AgentID{b, c})}, []identity.AgentID{c, b})
	rm.AddLocalRoute(&net.IPNet{IP: net.IP{10, 'l', 0, 0}, Mask: net.CIDRMask(24, 32)}, 0)
	// the new peer connects
	f.sender.(*fSender).peers = []identity.AgentID{b, d}
	snd.log = nil
	f.SendFullTable(d)
	verif_reach("C06/replay")
	var gotB, gotC []protocol.Route
	for _, s := range snd.log {
		verif_assert(s.to == d, "C06/replay-sent-to-another-peer")
		_, err := s.f.Encode()
		verif_assert(err == nil, "C06/announcement-exceeds-frame-size")
		adv, err := protocol.DecodeRouteAdvertise(s.f.Payload)
		verif_assert(err == nil, "C06/announcement-does-not-decode-at-the-neighbour")
		if err != nil {
			return
		}
		switch adv.OriginAgent {
		case b:
			gotB = append(gotB, adv.Routes...)
		case c:
			gotC = append(gotC, adv.Routes...)
		default:
			verif_assert(adv.OriginAgent == fID(fLocal), "C06/replayed-group-of-an-unknown-origin")
			for _, r := range adv.Routes {
				isB, isC := false, false
				for _, w := range gb {
					isB = isB || c06KeyOf(w) == c06KeyOf(r)
				}
				for _, w := range gc {
					isC = isC || c06KeyOf(w) == c06KeyOf(r)
				}
				verif_assert(!isB && !isC, "C06/learned-route-replayed-under-the-local-origin")
			}
		}
	}
	verif_assert(c06SameSet(gotB, gb), "C06/replayed-group-of-a-neighbour-origin-is-a-different-set")
	verif_assert(c06SameSet(gotC, gc), "C06/replayed-group-of-a-remote-origin-is-a-different-set")
}

// local networks of every address form: IPv4, IPv6, and an IPv4-mapped IPv6 prefix
// (16-byte address, 128-bit mask); what the neighbour decodes converts back (real
// protocolRouteToIPNet) to a network with the same mask length and width and the same address
func harnessC06Families() {
	f, snd, rm := fNew(0, []identity.AgentID{fID(0)})
	x := verif_nondet_u8()
	nets := []*net.IPNet{
		{IP: net.IP{10, x, 0, 0}, Mask: net.CIDRMask(16, 32)},
		{IP: net.IP{0x20, 0x01, 0x0d, 0xb8, x, 0, 0, 0, 0, 0, 0, 0, 0, 0, 0, 0}, Mask: net.CIDRMask(40, 128)},
		{IP: net.IP{0, 0, 0, 0, 0, 0, 0, 0, 0, 0, 0xff, 0xff, 10, 0, 0, 0}, Mask: net.CIDRMask(104, 128)},
	}
	for i, n := range nets {
		rm.AddLocalRoute(n, uint16(i))
	}
	f.AnnounceLocalRoutes()
	verif_reach("C06/families")
	found := make([]int, len(nets))
	for _, s := range snd.log {
		if s.f.Type != protocol.FrameRouteAdvertise {
			continue
		}
		adv, err := protocol.DecodeRouteAdvertise(s.f.Payload)
		verif_assert(err == nil, "C06/announcement-does-not-decode-at-the-neighbour")
		if err != nil {
			return
		}
		for _, r := range adv.Routes {
			if r.AddressFamily != protocol.AddrFamilyIPv4 && r.AddressFamily != protocol.AddrFamilyIPv6 {
				continue
			}
			got := protocolRouteToIPNet(r)
			verif_assert(got != nil && got.Mask != nil, "C06/neighbour-cannot-rebuild-the-announced-network")
			if got == nil || got.Mask == nil {
				return
			}
			go1, gb := got.Mask.Size()
			for i, n := range nets {
				o1, ob := n.Mask.Size()
				if go1 == o1 && gb == ob && len(got.IP) == len(n.IP) && got.IP.Equal(n.IP) {
					found[i]++
				}
			}
		}
	}
	for i := range nets {
		verif_assert(found[i] == 1, "C06/announced-network-not-learned-as-announced")
	}
}
