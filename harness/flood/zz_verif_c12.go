package flood

import (
	"errors"
	"net"

	"github.com/postalsys/muti-metroo/internal/identity"
	"github.com/postalsys/muti-metroo/internal/protocol"
	"github.com/postalsys/muti-metroo/internal/routing"
)

// C12: N real flooders with their real route managers; the harness is the
// mesh: one reliable FIFO queue per directed link, an arbitrary connected
// topology, an arbitrary placement of the exit route, and every delivery order
// (one representative per class of orders that differ only in the relative
// order of deliveries to different agents, which commute: sleep sets).

const c12Max = 4

type c12Net struct {
	n    int
	link [c12Max][c12Max]bool
	fl   [c12Max]*Flooder
	rm   [c12Max]*routing.Manager
	q    [c12Max][c12Max][]*protocol.Frame
	// ghost counters for C11
	onLink    [c12Max][c12Max][c12Max]int
	processed [c12Max][c12Max]int
	replays   bool // full-table replays are further announcements: the one-copy counters do not apply
}

type c12Sender struct {
	net *c12Net
	me  int
}

func c12Idx(id identity.AgentID) int { return int(id[0]) - 0xC0 }

func (s *c12Sender) SendToPeer(id identity.AgentID, f *protocol.Frame) error {
	to := c12Idx(id)
	if to < 0 || to >= s.net.n || !s.net.link[s.me][to] {
		return errors.New("not connected")
	}
	s.net.q[s.me][to] = append(s.net.q[s.me][to], f)
	return nil
}

func (s *c12Sender) GetPeerIDs() []identity.AgentID {
	var out []identity.AgentID
	for j := 0; j < s.net.n; j++ {
		if s.net.link[s.me][j] {
			out = append(out, fID(j))
		}
	}
	return out
}

func c12Connected(nw *c12Net) bool {
	var seen [c12Max]bool
	seen[0] = true
	for round := 0; round < nw.n; round++ {
		for i := 0; i < nw.n; i++ {
			for j := 0; j < nw.n; j++ {
				if seen[i] && nw.link[i][j] {
					seen[j] = true
				}
			}
		}
	}
	for i := 0; i < nw.n; i++ {
		if !seen[i] {
			return false
		}
	}
	return true
}

func c12Build(n int) *c12Net { return c12BuildLate(n, -1, -1) }

// li-lj (if >= 0) is a link that comes up later: absent now, but the topology is connected with it
func c12BuildLate(n, li, lj int) *c12Net {
	nw := &c12Net{n: n}
	for i := 0; i < n; i++ {
		for j := i + 1; j < n; j++ {
			l := verif_nondet_bool()
			if i == li && j == lj {
				l = true
			}
			nw.link[i][j], nw.link[j][i] = l, l
		}
	}
	verif_assume(c12Connected(nw))
	if li >= 0 {
		nw.link[li][lj], nw.link[lj][li] = false, false
	}
	// hop limit: unlimited, or exactly the largest distance a connected topology of n agents can have
	cfg := DefaultFloodConfig()
	if c12HopLimit && verif_nondet_bool() {
		cfg.MaxHops = n - 1
	}
	for i := 0; i < n; i++ {
		nw.rm[i] = routing.NewManager(fID(i))
		nw.fl[i] = NewFlooder(cfg, fID(i), nw.rm[i], &c12Sender{net: nw, me: i})
	}
	return nw
}

// delivers every queued frame, in every order up to commutation of deliveries to different agents
func c12Run(nw *c12Net) int {
	type tr struct{ from, to int }
	var sleep []tr
	delivered := 0
	for {
		var en []tr
		for i := 0; i < nw.n; i++ {
			for j := 0; j < nw.n; j++ {
				if len(nw.q[i][j]) > 0 {
					en = append(en, tr{i, j})
				}
			}
		}
		if len(en) == 0 {
			return delivered
		}
		var cand []tr
		for _, t := range en {
			asleep := false
			for _, z := range sleep {
				if z == t {
					asleep = true
				}
			}
			if !asleep {
				cand = append(cand, t)
			}
		}
		// every enabled delivery is covered by an order explored elsewhere
		verif_assume(len(cand) > 0)
		k := verif_choose(len(cand))
		t := cand[k]
		// siblings explored before t, and sleeping ones, stay asleep if they commute with t
		var ns []tr
		for _, z := range sleep {
			if z.to != t.to {
				ns = append(ns, z)
			}
		}
		for _, z := range cand[:k] {
			if z.to != t.to {
				ns = append(ns, z)
			}
		}
		sleep = ns
		f := nw.q[t.from][t.to][0]
		nw.q[t.from][t.to] = nw.q[t.from][t.to][1:]
		adv, err := protocol.DecodeRouteAdvertise(f.Payload)
		verif_assert(err == nil, "C12/advertisement-does-not-decode")
		if err != nil {
			return delivered
		}
		o := c12Idx(adv.OriginAgent)
		// C11: one announcement per origin in this run, so per link and per agent at most one copy / one processing
		nw.onLink[t.from][t.to][o]++
		verif_assert(nw.replays || nw.onLink[t.from][t.to][o] <= 1, "C11/announcement-sent-twice-over-one-link")
		ok := nw.fl[t.to].HandleRouteAdvertise(fID(t.from), adv.OriginAgent, adv.OriginDisplayName, adv.Sequence, adv.Routes, adv.EncPath, adv.SeenBy)
		if ok && !nw.replays {
			nw.processed[t.to][o]++
			verif_assert(o != t.to, "C11/origin-processed-its-own-announcement")
			verif_assert(nw.processed[t.to][o] <= 1, "C11/announcement-processed-twice-by-one-agent")
		}
		delivered++
		verif_assert(delivered <= 64, "C12/flood-does-not-quiesce")
	}
}

// path must be a chain of links x - p[0] - p[1] ... p[last] == origin, without repeats
func c12PathOK(nw *c12Net, x int, nextHop identity.AgentID, path []identity.AgentID, origin int) bool {
	if len(path) == 0 || path[0] != nextHop || path[len(path)-1] != fID(origin) {
		return false
	}
	prev := x
	for _, id := range path {
		k := c12Idx(id)
		if k < 0 || k >= nw.n || !nw.link[prev][k] || k == x {
			return false
		}
		prev = k
	}
	return fNoRepeat(path)
}

func c12Converge(witness bool) { c12ConvergeLate(witness, false) }

func c12ConvergeLate(witness, late bool) {
	li, lj := -1, -1
	if late {
		// which link comes up after the first flood has settled
		li = verif_choose(c12LateN - 1)
		lj = li + 1 + verif_choose(c12LateN-1-li)
	}
	n := c12N
	if late {
		n = c12LateN
	}
	nw := c12BuildLate(n, li, lj)
	nw.replays = late
	// exit placement: one agent (any) originates a prefix
	exit := verif_choose(nw.n)
	prefix := &net.IPNet{IP: net.IP{10, verif_nondet_u8(), 0, 0}, Mask: net.CIDRMask(16, 32)}
	nw.rm[exit].AddLocalRoute(prefix, 0)
	// the exit also originates a longer prefix with the same base address
	prefix2 := &net.IPNet{IP: prefix.IP, Mask: net.CIDRMask(24, 32)}
	nw.rm[exit].AddLocalRoute(prefix2, 0)
	// a second agent may advertise the same prefix (redundant exits)
	exit2 := exit
	if !late && c12Announcers > 1 {
		exit2 = verif_choose(nw.n)
		if exit2 != exit {
			nw.rm[exit2].AddLocalRoute(prefix, 0)
		}
	}
	// announcers: the exits, plus the others up to the bound
	announces := [c12Max]bool{}
	announces[exit] = true
	cnt := 1
	if exit2 != exit {
		announces[exit2] = true
		cnt++
	}
	maxAnn := c12Announcers
	if late {
		maxAnn = c12LateAnnouncers
	}
	for i := 0; i < nw.n && cnt < maxAnn; i++ {
		if !announces[i] {
			announces[i] = true
			cnt++
		}
	}
	for i := 0; i < nw.n; i++ {
		if announces[i] {
			nw.fl[i].AnnounceLocalRoutes()
		}
	}
	c12Run(nw)
	if late {
		// the link comes up: both ends replay their tables to the new peer (Agent.handlePeerConnected)
		nw.link[li][lj], nw.link[lj][li] = true, true
		nw.fl[li].SendFullTable(fID(lj))
		nw.fl[lj].SendFullTable(fID(li))
		c12Run(nw)
		// what one end of the new link knew of the exit's routes, the other end knows now
		for _, p := range []*net.IPNet{prefix, prefix2} {
			ha := li == exit || nw.rm[li].Table().HasRoute(p, fID(exit))
			hb := lj == exit || nw.rm[lj].Table().HasRoute(p, fID(exit))
			verif_assert(ha == hb, "C12/route-not-learned-from-the-full-table-replay")
		}
		// the next periodic announcement of every announcer (an agent's own presence is
		// not part of a replay; it reaches a new component with the next announcement)
		for i := 0; i < nw.n; i++ {
			if announces[i] {
				nw.fl[i].AnnounceLocalRoutes()
			}
		}
		c12Run(nw)
		verif_reach("C12/quiescent-after-late-link")
	}
	verif_reach("C12/quiescent")
	if witness {
		verif_assert(false, "witness")
		return
	}
	dst := net.IP{prefix.IP[0], prefix.IP[1], 1, 2}
	for x := 0; x < nw.n; x++ {
		for o := 0; o < nw.n; o++ {
			if o == x || !announces[o] {
				continue
			}
			ar := nw.rm[x].LookupAgent(fID(o))
			verif_assert(ar != nil, "C12/agent-presence-not-learned")
			if ar != nil {
				nh := c12Idx(ar.NextHop)
				verif_assert(nh >= 0 && nh < nw.n && nw.link[x][nh], "C12/presence-next-hop-is-not-a-neighbour")
				verif_assert(c12PathOK(nw, x, ar.NextHop, ar.Path, o), "C12/presence-path-is-not-a-chain-of-links-to-the-origin")
				verif_assert(int(ar.Metric) == len(ar.Path), "C13/presence-metric-is-not-the-path-length")
			}
		}
		// every advertised route is learned: one entry per advertising origin
		for _, e := range []int{exit, exit2} {
			if e != x {
				verif_assert(nw.rm[x].Table().HasRoute(prefix, fID(e)), "C12/advertised-route-not-learned")
			}
		}
		if x != exit {
			verif_assert(nw.rm[x].Table().HasRoute(prefix2, fID(exit)), "C12/advertised-route-not-learned")
		}
		if x == exit || x == exit2 {
			continue
		}
		r := nw.rm[x].Lookup(dst)
		verif_assert(r != nil && (r.OriginAgent == fID(exit) || r.OriginAgent == fID(exit2)), "C12/advertised-route-not-learned")
		if r != nil {
			nh := c12Idx(r.NextHop)
			verif_assert(nh >= 0 && nh < nw.n && nw.link[x][nh], "C12/route-next-hop-is-not-a-neighbour")
			verif_assert(c12PathOK(nw, x, r.NextHop, r.Path, c12Idx(r.OriginAgent)), "C12/route-path-is-not-a-chain-of-links-to-the-origin")
			verif_assert(int(r.Metric) == len(r.Path), "C12/route-metric-is-not-the-path-length")
		}
	}
}

func harnessC12Converge()        { c12Converge(false) }
func harnessC12LateLink()        { c12ConvergeLate(false, true) }
func harnessC12ConvergeWitness() { c12Converge(true) }
