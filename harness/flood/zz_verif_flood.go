package flood

import (
	"net"

	"github.com/postalsys/muti-metroo/internal/identity"
	"github.com/postalsys/muti-metroo/internal/protocol"
	"github.com/postalsys/muti-metroo/internal/routing"
)

// C11 / C13 / C14 / C15: one flooder with harness neighbours.

func fID(k int) identity.AgentID {
	var id identity.AgentID
	id[0] = byte(0xC0 + k)
	return id
}

const fLocal = 9

type fSent struct {
	to identity.AgentID
	f  *protocol.Frame
}

type fSender struct {
	peers []identity.AgentID
	log   []fSent
}

func (s *fSender) SendToPeer(id identity.AgentID, f *protocol.Frame) error {
	s.log = append(s.log, fSent{id, f})
	return nil
}
func (s *fSender) GetPeerIDs() []identity.AgentID { return s.peers }

// fSubset: an arbitrary subset of ids 0..n-1 (in order)
func fSubset(n int) []identity.AgentID {
	var out []identity.AgentID
	for k := 0; k < n; k++ {
		if verif_nondet_bool() {
			out = append(out, fID(k))
		}
	}
	return out
}

func fHas(list []identity.AgentID, id identity.AgentID) bool {
	for _, v := range list {
		if v == id {
			return true
		}
	}
	return false
}

func fNoRepeat(p []identity.AgentID) bool {
	for i := range p {
		for j := i + 1; j < len(p); j++ {
			if p[i] == p[j] {
				return false
			}
		}
	}
	return true
}

func fNew(maxHops int, peers []identity.AgentID) (*Flooder, *fSender, *routing.Manager) {
	rm := routing.NewManager(fID(fLocal))
	snd := &fSender{peers: peers}
	cfg := DefaultFloodConfig()
	cfg.MaxHops = maxHops
	return NewFlooder(cfg, fID(fLocal), rm, snd), snd, rm
}

func fRoute(metric uint16) protocol.Route {
	return protocol.Route{AddressFamily: protocol.AddrFamilyIPv4, PrefixLength: 24, Prefix: []byte{10, verif_nondet_u8(), verif_nondet_u8(), 0}, Metric: metric}
}

// ---------- C11: one inductive step ----------

func harnessC11Step() {
	neighbours := fSubset(4)
	f, snd, rm := fNew(0, neighbours)
	origin := fID(verif_choose(3))
	seq := verif_nondet_u64()
	// arbitrary seen cache: one earlier key, possibly the incoming one
	if verif_nondet_bool() {
		f.seenCache[AdvertisementKey{OriginAgent: fID(verif_choose(3)), Sequence: verif_nondet_u64()}] = &SeenAdvertisement{SeenFrom: fID(1)}
	}
	wasSeen := f.HasSeen(origin, seq)
	// message invariant I: path = sender .. origin without repeats, every path member has seen it
	from := fID(verif_choose(4))
	var path []identity.AgentID
	switch {
	case from == origin:
		path = []identity.AgentID{origin}
	case verif_nondet_bool():
		path = []identity.AgentID{from, origin}
	default:
		mid := fID(verif_choose(4))
		verif_assume(mid != from && mid != origin)
		path = []identity.AgentID{from, mid, origin}
	}
	seenBy := append([]identity.AgentID{}, path...)
	if verif_nondet_bool() { // someone else (possibly us) has seen it too
		extra := fID(verif_choose(4))
		if verif_nondet_bool() {
			extra = fID(fLocal)
		}
		if !fHas(seenBy, extra) {
			seenBy = append(seenBy, extra)
		}
	}
	selfSeen := fHas(seenBy, fID(fLocal))
	metric := verif_nondet_u16()
	verif_assume(metric < 60000)
	routes := []protocol.Route{fRoute(metric)}
	before := rm.Table().TotalRoutes()
	ok := f.HandleRouteAdvertise(from, origin, "", seq, routes, &protocol.EncryptedData{Data: protocol.EncodePath(path)}, seenBy)
	verif_reach("C11/step")
	verif_assert(f.HasSeen(origin, seq), "C11/processed-announcement-is-remembered")
	if wasSeen {
		verif_assert(!ok && len(snd.log) == 0 && rm.Table().TotalRoutes() == before, "C11/duplicate-is-processed-again")
		return
	}
	if selfSeen {
		verif_assert(!ok && len(snd.log) == 0 && rm.Table().TotalRoutes() == before, "C11/announcement-that-passed-us-is-processed")
		return
	}
	verif_reach("C11/forward")
	verif_assert(ok, "C11/new-announcement-accepted")
	for i := range snd.log {
		s := snd.log[i]
		verif_assert(s.to != from, "C11/sent-back-to-source")
		verif_assert(!fHas(seenBy, s.to), "C11/sent-to-agent-that-has-seen-it")
		verif_assert(fHas(neighbours, s.to), "C11/sent-to-non-neighbour")
		for j := i + 1; j < len(snd.log); j++ {
			verif_assert(snd.log[j].to != s.to, "C11/sent-twice-to-one-neighbour")
		}
		adv, err := protocol.DecodeRouteAdvertise(s.f.Payload)
		verif_assert(err == nil && adv.OriginAgent == origin && adv.Sequence == seq, "C11/forwarded-identity")
		verif_assert(len(adv.SeenBy) == len(seenBy)+1 && adv.SeenBy[len(seenBy)] == fID(fLocal), "C11/forwarded-seen-by-adds-self")
		verif_assert(len(adv.Path) == len(path)+1 && adv.Path[0] == fID(fLocal), "C11/forwarded-path-prepends-self")
		verif_assert(fNoRepeat(adv.Path), "C11/forwarded-path-revisits-an-agent")
		for _, p := range adv.Path {
			verif_assert(fHas(adv.SeenBy, p), "C11/forwarded-path-not-in-seen-by")
		}
	}
	// every neighbour that has not seen it gets it
	for _, n := range neighbours {
		if n != from && !fHas(seenBy, n) {
			got := false
			for _, s := range snd.log {
				got = got || s.to == n
			}
			verif_assert(got, "C11/neighbour-skipped")
		}
	}
	// stored route: next hop is the source, path as received, never through us
	for _, r := range rm.Table().GetAllRoutes() {
		verif_assert(r.NextHop == from, "C12/next-hop-is-source-peer")
		verif_assert(fNoRepeat(r.Path) && !fHas(r.Path, fID(fLocal)), "C11/stored-path-revisits-or-passes-self")
		verif_assert(len(r.Path) == len(path) && r.Path[0] == from && r.Path[len(r.Path)-1] == origin, "C12/stored-path-is-sender-to-origin")
		// C13: metric = origin metric + hops; wire invariant: wire metric = origin metric + (len(path)-1)
		verif_assert(r.Metric == metric+1, "C13/stored-metric-is-wire-plus-one")
	}
}

// C13: the forwarded advertisement keeps "wire metric = origin metric + hops so far"
func harnessC13Forward() {
	f, snd, rm := fNew(0, []identity.AgentID{fID(0), fID(1)})
	origin := fID(2)
	m0 := verif_nondet_u16()
	verif_assume(m0 < 1000)
	// received from neighbour 0, one hop from the origin... or directly from the origin
	var path []identity.AgentID
	from := fID(0)
	if verif_nondet_bool() {
		path = []identity.AgentID{fID(0), origin}
	} else {
		from = origin
		path = []identity.AgentID{origin}
		f.sender.(*fSender).peers = []identity.AgentID{origin, fID(1)}
	}
	wire := m0 + uint16(len(path)-1) // invariant on the incoming message
	// every kind of route: CIDR, exact and wildcard domain, forward key, agent presence
	grp := c06Group(origin, 'c', wire, verif_nondet_u8())
	f.HandleRouteAdvertise(from, origin, "", 7, grp, &protocol.EncryptedData{Data: protocol.EncodePath(path)}, append([]identity.AgentID{}, path...))
	verif_reach("C13/forward")
	verif_assert(len(snd.log) == 1, "C13/forwarded-once")
	if len(snd.log) == 1 {
		adv, err := protocol.DecodeRouteAdvertise(snd.log[0].f.Payload)
		verif_assert(err == nil && len(adv.Routes) == len(grp), "C13/forwarded-decodes")
		// the next receiver stores wire+1 and is len(adv.Path) hops from the origin
		for _, r := range adv.Routes {
			verif_assert(r.Metric+1 == m0+uint16(len(adv.Path)), "C13/metric-not-incremented-per-hop")
		}
	}
	// what this agent stored: origin metric + its own distance, in every table
	want := m0 + uint16(len(path))
	for _, r := range rm.Table().GetAllRoutes() {
		verif_assert(r.Metric == want, "C13/stored-cidr-metric-is-not-origin-metric-plus-hops")
	}
	for _, r := range rm.DomainTable().GetAllRoutes() {
		verif_assert(r.Metric == want, "C13/stored-domain-metric-is-not-origin-metric-plus-hops")
	}
	for _, r := range rm.ForwardTable().GetAllRoutes() {
		verif_assert(r.Metric == want, "C13/stored-forward-metric-is-not-origin-metric-plus-hops")
	}
	for _, r := range rm.AgentTable().GetAllRoutes() {
		verif_assert(r.Metric == want, "C13/stored-presence-metric-is-not-origin-metric-plus-hops")
	}
	verif_assert(rm.Table().TotalRoutes() == 1 && rm.AgentTable().Lookup(origin) != nil, "C13/group-not-stored")
}

// ---------- C15: hop limit ----------

func harnessC15HopLimit() {
	maxHops := 1 + verif_choose(3)
	f, snd, rm := fNew(maxHops, []identity.AgentID{fID(0), fID(1)})
	origin := fID(3)
	n := 1 + verif_choose(4) // our distance from the origin
	path := make([]identity.AgentID, n)
	path[0] = fID(0)
	for i := 1; i < n-1; i++ {
		path[i] = fID(3 + i)
	}
	path[n-1] = origin
	if n == 1 {
		path[0] = origin
	}
	from := path[0]
	f.sender.(*fSender).peers = []identity.AgentID{from, fID(1)}
	// live flood: every agent on the path is in the seen-by list; replay of a stored
	// route to a new peer (SendFullTable): full path, seen-by = the replaying agent only
	seenBy := append([]identity.AgentID{}, path...)
	if verif_nondet_bool() {
		seenBy = []identity.AgentID{from}
	}
	// every kind of route: CIDR, exact and wildcard domain, forward key, agent presence
	ok := f.HandleRouteAdvertise(from, origin, "", 1, c06Group(origin, 'c', 1, verif_nondet_u8()), &protocol.EncryptedData{Data: protocol.EncodePath(path)}, seenBy)
	verif_reach("C15/hop-limit")
	if n > maxHops {
		verif_assert(rm.Table().TotalRoutes() == 0, "C15/stored-beyond-hop-limit")
		verif_assert(rm.DomainTable().TotalRoutes() == 0 && rm.ForwardTable().TotalRoutes() == 0, "C15/stored-beyond-hop-limit")
		verif_assert(rm.LookupAgent(origin) == nil && len(rm.AgentTable().GetAllRoutes()) == 0, "C15/presence-stored-beyond-hop-limit")
		verif_assert(len(snd.log) == 0, "C15/forwarded-beyond-hop-limit")
		verif_assert(!ok, "C15/accepted-beyond-hop-limit")
	} else {
		verif_assert(ok && rm.Table().TotalRoutes() == 1 && len(snd.log) == 1, "C15/within-limit-processed")
	}
}

// ---------- C14: a relayed full-table replay must not mask the origin ----------

func harnessC14Replay() {
	// R (us) has neighbours B (relayer) and O (origin)
	f, _, rm := fNew(0, []identity.AgentID{fID(0), fID(1)})
	b, o := fID(0), fID(1)
	nw := fRoute(1)
	// replay by B of O's route, stamped with B's own counter sb
	sb, so := verif_nondet_u64(), verif_nondet_u64()
	ok1 := f.HandleRouteAdvertise(b, o, "", sb, []protocol.Route{nw}, &protocol.EncryptedData{Data: protocol.EncodePath([]identity.AgentID{b, o})}, []identity.AgentID{b})
	verif_assert(ok1, "C14/replay-accepted")
	// genuine announcement from O with O's own (independent) counter
	verif_set_now(1000)
	ok2 := f.HandleRouteAdvertise(o, o, "", so, []protocol.Route{nw}, &protocol.EncryptedData{Data: protocol.EncodePath([]identity.AgentID{o})}, []identity.AgentID{o})
	verif_reach("C14/replay")
	verif_assert(ok2, "C14/genuine-announcement-ignored-after-relayed-replay")
	fresh := false
	for _, r := range rm.Table().GetAllRoutes() {
		fresh = fresh || (r.OriginAgent == o && r.Sequence == so)
	}
	verif_assert(fresh, "C14/genuine-announcement-does-not-renew-route")
}

func harnessFloodWitness() {
	f, snd, _ := fNew(0, []identity.AgentID{fID(0), fID(1)})
	f.HandleRouteAdvertise(fID(0), fID(2), "", verif_nondet_u64(), []protocol.Route{fRoute(1)}, &protocol.EncryptedData{Data: protocol.EncodePath([]identity.AgentID{fID(0), fID(2)})}, []identity.AgentID{fID(0), fID(2)})
	if len(snd.log) == 1 {
		verif_assert(false, "witness")
	}
	_ = net.IP{}
}

// C11 base case: what an origin emits satisfies the message invariant that
// harnessC11Step assumes (path = [origin], seen-by contains the origin), once
// per neighbour.
func harnessC11Base() {
	neighbours := fSubset(4)
	f, snd, rm := fNew(0, neighbours)
	if verif_nondet_bool() {
		rm.AddLocalRoute(&net.IPNet{IP: net.IP{10, verif_nondet_u8(), 0, 0}, Mask: net.CIDRMask(16, 32)}, 0)
	}
	f.AnnounceLocalRoutes()
	verif_reach("C11/base")
	verif_assert(len(snd.log) == len(neighbours), "C11/origin-does-not-send-once-per-neighbour")
	for i, s := range snd.log {
		for j := i + 1; j < len(snd.log); j++ {
			verif_assert(snd.log[j].to != s.to, "C11/sent-twice-to-one-neighbour")
		}
		adv, err := protocol.DecodeRouteAdvertise(s.f.Payload)
		verif_assert(err == nil && adv.OriginAgent == fID(fLocal), "C11/origin-announcement-identity")
		if err != nil {
			return
		}
		verif_assert(len(adv.Path) == 1 && adv.Path[0] == fID(fLocal), "C11/origin-path-is-not-itself")
		verif_assert(fHas(adv.SeenBy, fID(fLocal)), "C11/origin-not-in-its-own-seen-by")
	}
}

// C14 without replays: two genuine announcements of one origin reach the agent
// over the same or over different neighbours; after the newer one every stored
// copy of the origin's route carries the new sequence (none is left to go stale).
func harnessC14TwoPaths() {
	f, _, rm := fNew(0, []identity.AgentID{fID(0), fID(1)})
	r, o := fID(0), fID(1)
	nw := fRoute(0)
	s1, s2 := verif_nondet_u64(), verif_nondet_u64()
	verif_assume(s2 > s1)
	deliver := func(seq uint64, viaRelay bool) bool {
		if viaRelay {
			w := nw
			w.Metric++
			return f.HandleRouteAdvertise(r, o, "", seq, []protocol.Route{w}, &protocol.EncryptedData{Data: protocol.EncodePath([]identity.AgentID{r, o})}, []identity.AgentID{o, r})
		}
		return f.HandleRouteAdvertise(o, o, "", seq, []protocol.Route{nw}, &protocol.EncryptedData{Data: protocol.EncodePath([]identity.AgentID{o})}, []identity.AgentID{o})
	}
	ok1 := deliver(s1, verif_nondet_bool())
	verif_set_now(1000)
	ok2 := deliver(s2, verif_nondet_bool())
	verif_reach("C14/two-paths")
	verif_assert(ok1 && ok2, "C14/genuine-announcement-ignored")
	n := 0
	for _, rt := range rm.Table().GetAllRoutes() {
		if rt.OriginAgent == o {
			n++
			verif_assert(rt.Sequence == s2, "C14/stale-copy-of-the-origin-route-kept")
		}
	}
	verif_assert(n >= 1, "C14/genuine-announcement-does-not-renew-route")
}

// the same for every kind of route the origin announces (domain, forward key, agent
// presence next to the CIDR route): whichever of the two paths carries the newer
// announcement first, every stored route of the origin is renewed to its sequence
func harnessC14TwoPathsAllKinds() {
	f, _, rm := fNew(0, []identity.AgentID{fID(0), fID(1)})
	r, o := fID(0), fID(1)
	s1, s2 := verif_nondet_u64(), verif_nondet_u64()
	verif_assume(s2 > s1)
	deliver := func(seq uint64, viaRelay bool) bool {
		if viaRelay {
			return f.HandleRouteAdvertise(r, o, "", seq, c06Group(o, 'o', 1, 0), &protocol.EncryptedData{Data: protocol.EncodePath([]identity.AgentID{r, o})}, []identity.AgentID{o, r})
		}
		return f.HandleRouteAdvertise(o, o, "", seq, c06Group(o, 'o', 0, 0), &protocol.EncryptedData{Data: protocol.EncodePath([]identity.AgentID{o})}, []identity.AgentID{o})
	}
	ok1 := deliver(s1, verif_nondet_bool())
	verif_set_now(1000)
	ok2 := deliver(s2, verif_nondet_bool())
	verif_reach("C14/two-paths-all-kinds")
	verif_assert(ok1 && ok2, "C14/genuine-announcement-ignored")
	n := 0
	for _, rt := range rm.Table().GetAllRoutes() {
		if rt.OriginAgent == o {
			n++
			verif_assert(rt.Sequence == s2, "C14/stale-copy-of-the-origin-route-kept")
		}
	}
	for _, rt := range rm.DomainTable().GetAllRoutes() {
		if rt.OriginAgent == o {
			n++
			verif_assert(rt.Sequence == s2, "C14/stale-copy-of-the-origin-domain-route-kept")
		}
	}
	for _, rt := range rm.ForwardTable().GetAllRoutes() {
		if rt.OriginAgent == o {
			n++
			verif_assert(rt.Sequence == s2, "C14/stale-copy-of-the-origin-forward-route-kept")
		}
	}
	// the presence table keeps one copy per next hop: the copy learned over the path that
	// carried the newer announcement is the one that is renewed
	renewed := false
	for _, ar := range rm.AgentTable().GetRoutesForAgent(o) {
		renewed = renewed || ar.Sequence == s2
	}
	verif_assert(renewed, "C14/genuine-announcement-does-not-renew-presence")
	verif_assert(n >= 4, "C14/genuine-announcement-does-not-renew-route")
}

// C13 on the full-table replay: routes learned at one and at two hops plus a
// local route are replayed to a new peer; for every replayed route the metric the
// receiver will store (wire + 1) equals the length of the replayed path, for every
// kind of route (origin metric 0).
func harnessC13Replay() {
	f, snd, rm := fNew(0, []identity.AgentID{fID(0)})
	b, c, d := fID(0), fID(2), fID(1)
	gb := c06Group(b, 'b', 0, 1)
	gc := c06Group(c, 'c', 1, 2) // forwarded once by b: wire metric 1
	f.HandleRouteAdvertise(b, b, "", 3, gb, &protocol.EncryptedData{Data: protocol.EncodePath([]identity.AgentID{b})}, []identity.AgentID{b})
	f.HandleRouteAdvertise(b, c, "", 5, gc, &protocol.EncryptedData{Data: protocol.EncodePath([]identity.AgentID{b, c})}, []identity.AgentID{c, b})
	rm.AddLocalRoute(&net.IPNet{IP: net.IP{10, 'l', 0, 0}, Mask: net.CIDRMask(24, 32)}, 0)
	f.sender.(*fSender).peers = []identity.AgentID{b, d}
	snd.log = nil
	f.SendFullTable(d)
	verif_reach("C13/replay")
	n := 0
	for _, s := range snd.log {
		adv, err := protocol.DecodeRouteAdvertise(s.f.Payload)
		verif_assert(err == nil, "C13/replayed-group-does-not-decode")
		if err != nil {
			return
		}
		for _, r := range adv.Routes {
			n++
			verif_assert(int(r.Metric)+1 == len(adv.Path), "C13/replayed-metric-is-not-the-hop-count")
		}
	}
	verif_assert(n >= 11, "C13/replay-incomplete")
}

// C14 (split horizon of the replay): what was learned through a neighbour is
// never replayed back to that neighbour (it would travel on under the replaying
// agent's own sequence numbers and mask the origin's announcements further on)
func harnessC14SplitHorizon() {
	f, snd, rm := fNew(0, []identity.AgentID{fID(0)})
	b, c := fID(0), fID(2)
	f.HandleRouteAdvertise(b, b, "", 3, c06Group(b, 'b', 0, 1), &protocol.EncryptedData{Data: protocol.EncodePath([]identity.AgentID{b})}, []identity.AgentID{b})
	f.HandleRouteAdvertise(b, c, "", 5, c06Group(c, 'c', 1, 2), &protocol.EncryptedData{Data: protocol.EncodePath([]identity.AgentID{b, c})}, []identity.AgentID{c, b})
	rm.AddLocalRoute(&net.IPNet{IP: net.IP{10, 'l', 0, 0}, Mask: net.CIDRMask(24, 32)}, 0)
	snd.log = nil
	f.SendFullTable(b)
	verif_reach("C14/split-horizon")
	for _, s := range snd.log {
		adv, err := protocol.DecodeRouteAdvertise(s.f.Payload)
		verif_assert(err == nil, "C14/replayed-group-does-not-decode")
		if err != nil {
			return
		}
		verif_assert(adv.OriginAgent == fID(fLocal), "C14/routes-learned-through-a-neighbour-replayed-back-to-it")
		for _, r := range adv.Routes {
			verif_assert(r.AddressFamily == protocol.AddrFamilyIPv4 && len(r.Prefix) == 4 && r.Prefix[1] == 'l', "C14/routes-learned-through-a-neighbour-replayed-back-to-it")
		}
	}
}

// C14 at the replaying agent itself: after it has replayed an origin's routes to
// a new peer (stamped with its own counter), it still processes, renews and
// forwards every later genuine announcement of that origin, whatever its number
func harnessC14ReplayerStillListens() {
	f, snd, rm := fNew(0, []identity.AgentID{fID(0)})
	o, x := fID(0), fID(1)
	nw := fRoute(0)
	s0 := verif_nondet_u64()
	ok0 := f.HandleRouteAdvertise(o, o, "", s0, []protocol.Route{nw}, &protocol.EncryptedData{Data: protocol.EncodePath([]identity.AgentID{o})}, []identity.AgentID{o})
	verif_assert(ok0, "C14/genuine-announcement-ignored")
	// a new peer connects: full-table replay to it
	f.sender.(*fSender).peers = []identity.AgentID{o, x}
	f.SendFullTable(x)
	// the origin's next announcement, with any later number (possibly the number the replay used)
	s1 := verif_nondet_u64()
	verif_assume(s1 > s0)
	verif_set_now(1000)
	snd.log = nil
	ok1 := f.HandleRouteAdvertise(o, o, "", s1, []protocol.Route{nw}, &protocol.EncryptedData{Data: protocol.EncodePath([]identity.AgentID{o})}, []identity.AgentID{o})
	verif_reach("C14/replayer")
	verif_assert(ok1, "C14/replaying-agent-ignores-a-genuine-announcement-after-its-own-replay")
	renewed := false
	for _, r := range rm.Table().GetAllRoutes() {
		renewed = renewed || (r.OriginAgent == o && r.Sequence == s1)
	}
	verif_assert(renewed, "C14/genuine-announcement-does-not-renew-route")
	fwd := 0
	for _, s := range snd.log {
		if s.to == x {
			fwd++
		}
	}
	verif_assert(fwd == 1, "C14/genuine-announcement-not-forwarded-after-replay")
}
