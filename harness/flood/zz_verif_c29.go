package flood

import (
	"time"

	"github.com/postalsys/muti-metroo/internal/crypto"
	"github.com/postalsys/muti-metroo/internal/identity"
	"github.com/postalsys/muti-metroo/internal/protocol"
)

// C28 (flooder part) / C29: signed sleep and wake commands.

func fSigned(maxCache int) (*Flooder, *fSender, *[32]byte) {
	f, snd, _ := fNew(0, []identity.AgentID{fID(0), fID(1)})
	var pub [32]byte
	pub[0], pub[31] = verif_nondet_u8(), verif_nondet_u8()
	f.signingPubKey = &pub
	if maxCache > 0 {
		f.cfg.MaxSeenCacheSize = maxCache
	}
	return f, snd, &pub
}

func fSig() [protocol.SignatureSize]byte {
	// first and last byte symbolic (covers all-zero, and non-zero at either end); the
	// signature check itself is uninterpreted, so the middle bytes carry no extra behaviour
	var s [protocol.SignatureSize]byte
	s[0] = verif_nondet_u8()
	s[protocol.SignatureSize-1] = verif_nondet_u8()
	return s
}

const fSec = int64(time.Second)

// C28: with a signing key configured, a command is acted on or forwarded only
// with a valid, non-zero signature and a timestamp inside the window.
func harnessC28Flooder() {
	f, snd, pub := fSigned(0)
	now := verif_nondet_i64()
	verif_assume(now > 1000*fSec && now < (1<<31)*fSec)
	verif_set_now(now)
	ts := verif_nondet_u64()
	origin := fID(verif_choose(3))
	id := verif_nondet_u64()
	sig := fSig()
	wake := verif_nondet_bool()
	var acted bool
	// what a valid signature covers: origin, identifier and timestamp (reference layout,
	// independent of the code under test)
	signable := make([]byte, 0, 32)
	signable = append(signable, origin[:]...)
	for sh := 56; sh >= 0; sh -= 8 {
		signable = append(signable, byte(id>>uint(sh)))
	}
	for sh := 56; sh >= 0; sh -= 8 {
		signable = append(signable, byte(ts>>uint(sh)))
	}
	var got []byte
	if wake {
		cmd := &protocol.WakeCommand{OriginAgent: origin, CommandID: id, Timestamp: ts, Signature: sig}
		got = cmd.SignableBytes()
		acted = f.HandleWakeCommand(fID(0), cmd)
	} else {
		cmd := &protocol.SleepCommand{OriginAgent: origin, CommandID: id, Timestamp: ts, Signature: sig}
		got = cmd.SignableBytes()
		acted = f.HandleSleepCommand(fID(0), cmd)
	}
	verif_reach("C28/flooder")
	covered := len(got) == len(signable)
	for i := 0; covered && i < len(got); i++ {
		covered = got[i] == signable[i]
	}
	verif_assert(covered, "C28/signature-does-not-cover-origin-identifier-and-timestamp")
	valid := crypto.Verify(*pub, signable, sig)
	zero := true
	for _, b := range sig {
		zero = zero && b == 0
	}
	// |now - ts| <= window, in whole seconds as the implementation computes it
	win := int64(f.timestampWindow)
	inWindow := false
	if ts < (1 << 32) {
		d := now - int64(ts)*fSec
		if d < 0 {
			d = -d
		}
		inWindow = d <= win
	}
	if acted {
		verif_reach("C28/acted")
		verif_assert(valid, "C28/acted-on-invalid-signature")
		verif_assert(!zero, "C28/acted-on-unsigned-command")
		verif_assert(inWindow, "C28/acted-on-command-outside-window")
	}
	if !acted {
		verif_assert(len(snd.log) == 0, "C28/rejected-command-forwarded")
		// nor is it kept for a peer that connects later
		f.OnPeerConnected(fID(1))
		verif_assert(len(snd.log) == 0, "C28/rejected-command-forwarded-to-a-peer-connecting-later")
	}
	if valid && !zero && inWindow {
		verif_assert(acted, "C28/valid-command-rejected")
	}
}

// C29: a validly signed command is acted on at most once: replay after
// arbitrary cache maintenance and forged traffic, at any later instant.
func harnessC29Replay() {
	maxCache := 1 + verif_choose(2)
	f, _, pub := fSigned(maxCache)
	t0 := verif_nondet_i64()
	verif_assume(t0 > 1000*fSec && t0 < (1<<31)*fSec)
	verif_set_now(t0)
	ts := verif_nondet_u64()
	verif_assume(ts < (1 << 32))
	cmd := &protocol.SleepCommand{OriginAgent: fID(2), CommandID: verif_nondet_u64(), Timestamp: ts, Signature: fSig()}
	verif_assume(crypto.Verify(*pub, cmd.SignableBytes(), cmd.Signature))
	first := f.HandleSleepCommand(fID(0), cmd)
	verif_assume(first) // the genuine command is accepted once
	verif_reach("C29/accepted")
	// adversarial step: nothing, forged traffic with other ids, or cache maintenance at a later instant
	dt := verif_nondet_i64()
	verif_assume(dt >= 0 && dt < (1<<30)*fSec)
	how := verif_choose(3)
	switch how {
	case 1:
		forged := &protocol.SleepCommand{OriginAgent: fID(1), CommandID: verif_nondet_u64(), Timestamp: ts, Signature: fSig()}
		verif_assume(!crypto.Verify(*pub, forged.SignableBytes(), forged.Signature))
		verif_assert(!f.HandleSleepCommand(fID(1), forged), "C29/forged-command-accepted")
		verif_set_now(t0 + dt)
		f.cleanup()
		verif_reach("C29/forged-then-cleanup")
	case 2:
		verif_set_now(t0 + dt)
		f.cleanup()
		verif_reach("C29/cleanup")
	}
	dt2 := verif_nondet_i64()
	verif_assume(dt2 >= 0 && dt2 < (1<<30)*fSec)
	if how == 1 {
		verif_assume(dt+dt2 < 60*fSec) // isolate size-based eviction from time-based expiry
	}
	verif_set_now(t0 + dt + dt2)
	again := f.HandleSleepCommand(fID(1), &protocol.SleepCommand{OriginAgent: cmd.OriginAgent, CommandID: cmd.CommandID, Timestamp: cmd.Timestamp, Signature: cmd.Signature})
	verif_reach("C29/replayed")
	switch how {
	case 0:
		verif_assert(!again, "C29/replay-accepted-without-any-maintenance")
	case 1:
		// two entries (genuine + forged) and no time-based expiry
		if 2 > maxCache {
			verif_assert(!again, "C29/replay-accepted-after-forged-traffic-evicted-the-entry")
		} else {
			verif_assert(!again, "C29/replay-accepted-after-cleanup-of-a-cache-within-its-size-limit")
		}
	case 2:
		// one entry: cleanup may only drop it by age
		if dt > int64(f.cfg.SeenCacheTTL) {
			verif_assert(!again, "C29/replay-accepted-after-cache-entry-expired-inside-the-window")
		} else {
			verif_assert(!again, "C29/replay-accepted-after-cleanup-before-the-entry-expired")
		}
	}
}
