package shell

// arguments of 2 bytes did not finish within 50 minutes (regexp engine interpreted on symbolic bytes)
const c25ArgLen = 1
