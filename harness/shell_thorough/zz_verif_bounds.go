package shell

const c25ArgLen = 2
