package routing

// number of table operations in the CIDR bounded history
const c08Ops = 2

// announcements for one key in the order harnesses
const cOrdAdds = 3
