package routing

// number of table operations in the CIDR bounded history (quick tier)
const c08Ops = 2
