package filetransfer

const (
	c27NameComps = 2
	c27LinkComps = 2
)

const (
	c26Comps  = 2
	c26LexLen = 5
)
