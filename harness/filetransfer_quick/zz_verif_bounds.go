package filetransfer

const (
	c27NameComps = 2
	c27LinkComps = 2
)
