package flood

const (
	c12N              = 4
	c12Announcers     = 1
	c12LateN          = 3
	c12HopLimit       = false // also run every composition with max_hops = N-1
	c12LateAnnouncers = 3
)
