package flood

const (
	c12N         = 4
	c12Announcers = 1
)
