package flood

const (
	c12N              = 4
	c12LateAnnouncers = 3
	c12Announcers     = 1
)
