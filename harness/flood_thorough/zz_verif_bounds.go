package flood

const (
	c12N              = 4
	c12Announcers     = 1
	c12LateN          = 3
	c12LateAnnouncers = 3
)
