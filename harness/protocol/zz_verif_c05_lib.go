package protocol

import "github.com/postalsys/muti-metroo/internal/identity"

// Shared generators and comparators for the C05 codec harnesses.

func c05ID() identity.AgentID {
	var id identity.AgentID
	for i := range id {
		id[i] = verif_nondet_u8()
	}
	return id
}

func c05IDs(max int) []identity.AgentID {
	n := verif_choose(max + 1)
	ids := make([]identity.AgentID, n)
	for i := range ids {
		ids[i] = c05ID()
	}
	return ids
}

func c05Str(max int) string { return verif_nondet_string(verif_choose(max + 1)) }

func c05Bytes(max int) []byte { return verif_nondet_bytes(verif_choose(max + 1)) }

func c05Key() [EphemeralKeySize]byte {
	var k [EphemeralKeySize]byte
	for i := range k {
		k[i] = verif_nondet_u8()
	}
	return k
}

func c05Sig() [SignatureSize]byte {
	var k [SignatureSize]byte
	for i := range k {
		k[i] = verif_nondet_u8()
	}
	return k
}

// c05Addr returns an address whose length matches its type (the documented
// validity predicate of the wire format).
func c05Addr() (uint8, []byte) {
	switch verif_choose(3) {
	case 0:
		return AddrTypeIPv4, verif_nondet_bytes(4)
	case 1:
		return AddrTypeIPv6, verif_nondet_bytes(16)
	}
	n := verif_choose(3)
	b := verif_nondet_bytes(1 + n)
	b[0] = uint8(n)
	return AddrTypeDomain, b
}

func c05BoundAddr() (uint8, []byte) {
	switch verif_choose(3) {
	case 0:
		return AddrTypeIPv4, verif_nondet_bytes(4)
	case 1:
		return AddrTypeIPv6, verif_nondet_bytes(16)
	}
	// any other type carries no address bytes
	t := verif_nondet_u8()
	verif_assume(t != AddrTypeIPv4 && t != AddrTypeIPv6)
	return t, nil
}

// c05Route: a route whose prefix has the length its family prescribes.
func c05Route() Route {
	r := Route{PrefixLength: verif_nondet_u8(), Metric: verif_nondet_u16()}
	switch verif_choose(5) {
	case 0:
		r.AddressFamily, r.Prefix = AddrFamilyIPv4, verif_nondet_bytes(4)
	case 1:
		r.AddressFamily, r.Prefix = AddrFamilyIPv6, verif_nondet_bytes(16)
	case 2:
		r.AddressFamily, r.Prefix = AddrFamilyDomain, EncodeDomainPrefix(c05Str(1))
	case 3:
		r.AddressFamily, r.Prefix = AddrFamilyForward, EncodeForwardKeyWithTarget(c05Str(1), c05Str(1))
	case 4:
		r.AddressFamily, r.Prefix = AddrFamilyAgent, EncodeAgentPrefix(c05ID())
	}
	return r
}

func c05BytesEq(a, b []byte) bool {
	if len(a) != len(b) {
		return false
	}
	eq := true
	for i := range a {
		eq = eq && a[i] == b[i]
	}
	return eq
}

func c05IDsEq(a, b []identity.AgentID) bool {
	if len(a) != len(b) {
		return false
	}
	eq := true
	for i := range a {
		eq = eq && a[i] == b[i]
	}
	return eq
}

func c05StrsEq(a, b []string) bool {
	if len(a) != len(b) {
		return false
	}
	eq := true
	for i := range a {
		eq = eq && a[i] == b[i]
	}
	return eq
}

func c05RouteEq(a, b *Route) bool {
	return a.AddressFamily == b.AddressFamily && a.PrefixLength == b.PrefixLength && a.Metric == b.Metric && c05BytesEq(a.Prefix, b.Prefix)
}

func c05RoutesEq(a, b []Route) bool {
	if len(a) != len(b) {
		return false
	}
	eq := true
	for i := range a {
		eq = eq && c05RouteEq(&a[i], &b[i])
	}
	return eq
}

func c05EncEq(a, b *EncryptedData) bool {
	if a == nil || b == nil {
		return a == nil && b == nil
	}
	return a.Encrypted == b.Encrypted && c05BytesEq(a.Data, b.Data)
}

func c05NodeInfoEq(a, b *NodeInfo) bool {
	if !(a.DisplayName == b.DisplayName && a.Hostname == b.Hostname && a.OS == b.OS && a.Arch == b.Arch && a.Version == b.Version && a.StartTime == b.StartTime) {
		return false
	}
	if !c05StrsEq(a.IPAddresses, b.IPAddresses) || !c05StrsEq(a.Shells, b.Shells) {
		return false
	}
	if len(a.Peers) != len(b.Peers) || len(a.ForwardListeners) != len(b.ForwardListeners) {
		return false
	}
	eq := a.PublicKey == b.PublicKey && a.UDPEnabled == b.UDPEnabled && a.FileTransferEnabled == b.FileTransferEnabled && a.ShellEnabled == b.ShellEnabled && a.IcmpEnabled == b.IcmpEnabled
	for i := range a.Peers {
		eq = eq && a.Peers[i].PeerID == b.Peers[i].PeerID && a.Peers[i].Transport == b.Peers[i].Transport && a.Peers[i].RTTMs == b.Peers[i].RTTMs && a.Peers[i].IsDialer == b.Peers[i].IsDialer
	}
	for i := range a.ForwardListeners {
		eq = eq && a.ForwardListeners[i].Key == b.ForwardListeners[i].Key && a.ForwardListeners[i].Address == b.ForwardListeners[i].Address
	}
	return eq
}

func c05AdvEq(a, b *RouteAdvertise) bool {
	return a.OriginAgent == b.OriginAgent && a.OriginDisplayName == b.OriginDisplayName && a.Sequence == b.Sequence &&
		c05RoutesEq(a.Routes, b.Routes) && c05IDsEq(a.Path, b.Path) && c05IDsEq(a.SeenBy, b.SeenBy)
}

func c05WdEq(a, b *RouteWithdraw) bool {
	return a.OriginAgent == b.OriginAgent && a.Sequence == b.Sequence && c05RoutesEq(a.Routes, b.Routes) && c05IDsEq(a.SeenBy, b.SeenBy)
}

func c05NIAEq(a, b *NodeInfoAdvertise) bool {
	return a.OriginAgent == b.OriginAgent && a.Sequence == b.Sequence && c05IDsEq(a.SeenBy, b.SeenBy) && c05NodeInfoEq(&a.Info, &b.Info)
}

func c05SleepEq(a, b *SleepCommand) bool {
	if a == nil || b == nil {
		return a == nil && b == nil
	}
	return a.OriginAgent == b.OriginAgent && a.CommandID == b.CommandID && a.Timestamp == b.Timestamp && a.Signature == b.Signature && c05IDsEq(a.SeenBy, b.SeenBy)
}

func c05WakeEq(a, b *WakeCommand) bool {
	if a == nil || b == nil {
		return a == nil && b == nil
	}
	return a.OriginAgent == b.OriginAgent && a.CommandID == b.CommandID && a.Timestamp == b.Timestamp && a.Signature == b.Signature && c05IDsEq(a.SeenBy, b.SeenBy)
}

// c05Buf returns an arbitrary buffer of every length 0..max.
func c05Buf(max int) []byte {
	n := verif_choose(max + 1)
	verif_alloc_limit(c05AllocLimit(n))
	return verif_nondet_bytes(n)
}

// allocation proportionality: no single make() may exceed max(256, len(input)) elements
func c05AllocLimit(n int) int {
	if n < 256 {
		return 256
	}
	return n
}
