package protocol

import (
	"errors"

	"github.com/postalsys/muti-metroo/internal/identity"
)

// C05: wire codecs are lossless and total.
// RT harnesses: a symbolic message within its wire limits round-trips.
// Tot harnesses: arbitrary bytes of every length 0..N never crash the decoder,
// never make it allocate out of proportion, and a successful decode re-encodes
// to a message that decodes to the same message (fix-point).

// ---------- frame header ----------

func harnessC05RT_Frame() {
	f := &Frame{Type: verif_nondet_u8(), Flags: verif_nondet_u8(), StreamID: verif_nondet_u64(), Payload: c05Bytes(3)}
	b, err := f.Encode()
	verif_assert(err == nil && len(b) == HeaderSize+len(f.Payload), "C05/frame-encode")
	ft, fl, ln, sid, err := DecodeHeader(b)
	verif_assert(err == nil && ft == f.Type && fl == f.Flags && sid == f.StreamID && int(ln) == len(f.Payload), "C05/frame-header-roundtrip")
	d, err := Decode(b)
	verif_reach("C05/frame-rt")
	verif_assert(err == nil, "C05/frame-decode-ok")
	verif_assert(d.Type == f.Type && d.Flags == f.Flags && d.StreamID == f.StreamID && c05BytesEq(d.Payload, f.Payload), "C05/frame-roundtrip")
}

func harnessC05Tot_Frame() {
	b := c05Buf(HeaderSize + c05XFrame)
	d, err := Decode(b)
	if err != nil {
		return
	}
	verif_reach("C05/frame-tot")
	verif_assert(len(d.Payload) <= len(b)-HeaderSize, "C05/frame-payload-inside-buffer")
	b2, err := d.Encode()
	verif_assert(err == nil, "C05/frame-reencode")
	d2, err := Decode(b2)
	verif_assert(err == nil && d2.Type == d.Type && d2.Flags == d.Flags && d2.StreamID == d.StreamID && c05BytesEq(d2.Payload, d.Payload), "C05/frame-fixpoint")
}

// Encode rejects exactly payloads above the limit; DecodeHeader rejects longer lengths.
func harnessC05FrameLimit() {
	var hdr [HeaderSize]byte
	for i := range hdr {
		hdr[i] = verif_nondet_u8()
	}
	_, _, ln, _, err := DecodeHeader(hdr[:])
	declared := uint32(hdr[2])<<24 | uint32(hdr[3])<<16 | uint32(hdr[4])<<8 | uint32(hdr[5])
	verif_reach("C05/frame-limit")
	verif_assert((err == nil) == (declared <= MaxPayloadSize), "C05/header-rejects-exactly-oversize")
	if err == nil {
		verif_assert(ln == declared, "C05/header-length")
	} else {
		verif_assert(errors.Is(err, ErrFrameTooLarge), "C05/header-error-kind")
	}
}

// ---------- PeerHello ----------

func harnessC05RT_PeerHello() {
	m := &PeerHello{Version: verif_nondet_u16(), AgentID: c05ID(), Timestamp: verif_nondet_u64(), DisplayName: c05Str(2)}
	nc := verif_choose(3)
	for i := 0; i < nc; i++ {
		m.Capabilities = append(m.Capabilities, c05Str(2))
	}
	d, err := DecodePeerHello(m.Encode())
	verif_reach("C05/peerhello-rt")
	verif_assert(err == nil, "C05/peerhello-decode-ok")
	verif_assert(d.Version == m.Version && d.AgentID == m.AgentID && d.Timestamp == m.Timestamp && d.DisplayName == m.DisplayName && c05StrsEq(d.Capabilities, m.Capabilities), "C05/peerhello-roundtrip")
}

func harnessC05Tot_PeerHello() {
	d, err := DecodePeerHello(c05Buf(28 + c05XPeerHello))
	if err != nil {
		return
	}
	verif_reach("C05/peerhello-tot")
	d2, err := DecodePeerHello(d.Encode())
	verif_assert(err == nil && d2.Version == d.Version && d2.AgentID == d.AgentID && d2.Timestamp == d.Timestamp && d2.DisplayName == d.DisplayName && c05StrsEq(d2.Capabilities, d.Capabilities), "C05/peerhello-fixpoint")
}

// ---------- StreamOpen / UDPOpen ----------

func harnessC05RT_StreamOpen() {
	t, a := c05Addr()
	m := &StreamOpen{RequestID: verif_nondet_u64(), AddressType: t, Address: a, Port: verif_nondet_u16(), TTL: verif_nondet_u8(), RemainingPath: c05IDs(2), EphemeralPubKey: c05Key()}
	d, err := DecodeStreamOpen(m.Encode())
	verif_reach("C05/streamopen-rt")
	verif_assert(err == nil, "C05/streamopen-decode-ok")
	verif_assert(d.RequestID == m.RequestID && d.AddressType == m.AddressType && c05BytesEq(d.Address, m.Address) && d.Port == m.Port && d.TTL == m.TTL && c05IDsEq(d.RemainingPath, m.RemainingPath) && d.EphemeralPubKey == m.EphemeralPubKey, "C05/streamopen-roundtrip")
}

func harnessC05Tot_StreamOpen() {
	d, err := DecodeStreamOpen(c05Buf(13 + EphemeralKeySize + c05XOpen))
	if err != nil {
		return
	}
	verif_reach("C05/streamopen-tot")
	d2, err := DecodeStreamOpen(d.Encode())
	verif_assert(err == nil && d2.RequestID == d.RequestID && d2.AddressType == d.AddressType && c05BytesEq(d2.Address, d.Address) && d2.Port == d.Port && d2.TTL == d.TTL && c05IDsEq(d2.RemainingPath, d.RemainingPath) && d2.EphemeralPubKey == d.EphemeralPubKey, "C05/streamopen-fixpoint")
}

func harnessC05RT_UDPOpen() {
	t, a := c05Addr()
	m := &UDPOpen{RequestID: verif_nondet_u64(), AddressType: t, Address: a, Port: verif_nondet_u16(), TTL: verif_nondet_u8(), RemainingPath: c05IDs(2), EphemeralPubKey: c05Key()}
	d, err := DecodeUDPOpen(m.Encode())
	verif_reach("C05/udpopen-rt")
	verif_assert(err == nil, "C05/udpopen-decode-ok")
	verif_assert(d.RequestID == m.RequestID && d.AddressType == m.AddressType && c05BytesEq(d.Address, m.Address) && d.Port == m.Port && d.TTL == m.TTL && c05IDsEq(d.RemainingPath, m.RemainingPath) && d.EphemeralPubKey == m.EphemeralPubKey, "C05/udpopen-roundtrip")
}

func harnessC05Tot_UDPOpen() {
	d, err := DecodeUDPOpen(c05Buf(13 + EphemeralKeySize + c05XOpen))
	if err != nil {
		return
	}
	verif_reach("C05/udpopen-tot")
	d2, err := DecodeUDPOpen(d.Encode())
	verif_assert(err == nil && d2.RequestID == d.RequestID && d2.AddressType == d.AddressType && c05BytesEq(d2.Address, d.Address) && d2.Port == d.Port && d2.TTL == d.TTL && c05IDsEq(d2.RemainingPath, d.RemainingPath) && d2.EphemeralPubKey == d.EphemeralPubKey, "C05/udpopen-fixpoint")
}

// ---------- StreamOpenAck / UDPOpenAck ----------

func harnessC05RT_StreamOpenAck() {
	t, a := c05BoundAddr()
	m := &StreamOpenAck{RequestID: verif_nondet_u64(), BoundAddrType: t, BoundAddr: a, BoundPort: verif_nondet_u16(), EphemeralPubKey: c05Key()}
	d, err := DecodeStreamOpenAck(m.Encode())
	verif_reach("C05/streamopenack-rt")
	verif_assert(err == nil, "C05/streamopenack-decode-ok")
	verif_assert(d.RequestID == m.RequestID && d.BoundAddrType == m.BoundAddrType && c05BytesEq(d.BoundAddr, m.BoundAddr) && d.BoundPort == m.BoundPort && d.EphemeralPubKey == m.EphemeralPubKey, "C05/streamopenack-roundtrip")
}

func harnessC05Tot_StreamOpenAck() {
	d, err := DecodeStreamOpenAck(c05Buf(11 + EphemeralKeySize + c05XAck))
	if err != nil {
		return
	}
	verif_reach("C05/streamopenack-tot")
	d2, err := DecodeStreamOpenAck(d.Encode())
	verif_assert(err == nil && d2.RequestID == d.RequestID && d2.BoundAddrType == d.BoundAddrType && c05BytesEq(d2.BoundAddr, d.BoundAddr) && d2.BoundPort == d.BoundPort && d2.EphemeralPubKey == d.EphemeralPubKey, "C05/streamopenack-fixpoint")
}

func harnessC05RT_UDPOpenAck() {
	t, a := c05BoundAddr()
	m := &UDPOpenAck{RequestID: verif_nondet_u64(), BoundAddrType: t, BoundAddr: a, BoundPort: verif_nondet_u16(), EphemeralPubKey: c05Key()}
	d, err := DecodeUDPOpenAck(m.Encode())
	verif_reach("C05/udpopenack-rt")
	verif_assert(err == nil, "C05/udpopenack-decode-ok")
	verif_assert(d.RequestID == m.RequestID && d.BoundAddrType == m.BoundAddrType && c05BytesEq(d.BoundAddr, m.BoundAddr) && d.BoundPort == m.BoundPort && d.EphemeralPubKey == m.EphemeralPubKey, "C05/udpopenack-roundtrip")
}

func harnessC05Tot_UDPOpenAck() {
	d, err := DecodeUDPOpenAck(c05Buf(11 + EphemeralKeySize + c05XAck))
	if err != nil {
		return
	}
	verif_reach("C05/udpopenack-tot")
	d2, err := DecodeUDPOpenAck(d.Encode())
	verif_assert(err == nil && d2.RequestID == d.RequestID && d2.BoundAddrType == d.BoundAddrType && c05BytesEq(d2.BoundAddr, d.BoundAddr) && d2.BoundPort == d.BoundPort && d2.EphemeralPubKey == d.EphemeralPubKey, "C05/udpopenack-fixpoint")
}

// ---------- *OpenErr ----------

func harnessC05RT_OpenErr() {
	id, code, msg := verif_nondet_u64(), verif_nondet_u16(), c05Str(3)
	verif_reach("C05/openerr-rt")
	d1, err := DecodeStreamOpenErr((&StreamOpenErr{RequestID: id, ErrorCode: code, Message: msg}).Encode())
	verif_assert(err == nil && d1.RequestID == id && d1.ErrorCode == code && d1.Message == msg, "C05/streamopenerr-roundtrip")
	d2, err := DecodeUDPOpenErr((&UDPOpenErr{RequestID: id, ErrorCode: code, Message: msg}).Encode())
	verif_assert(err == nil && d2.RequestID == id && d2.ErrorCode == code && d2.Message == msg, "C05/udpopenerr-roundtrip")
	d3, err := DecodeICMPOpenErr((&ICMPOpenErr{RequestID: id, ErrorCode: code, Message: msg}).Encode())
	verif_assert(err == nil && d3.RequestID == id && d3.ErrorCode == code && d3.Message == msg, "C05/icmpopenerr-roundtrip")
}

func harnessC05Tot_OpenErr() {
	b := c05Buf(11 + c05XErr)
	switch verif_choose(3) {
	case 0:
		if d, err := DecodeStreamOpenErr(b); err == nil {
			verif_reach("C05/openerr-tot")
			d2, err := DecodeStreamOpenErr(d.Encode())
			verif_assert(err == nil && d2.RequestID == d.RequestID && d2.ErrorCode == d.ErrorCode && d2.Message == d.Message, "C05/streamopenerr-fixpoint")
		}
	case 1:
		if d, err := DecodeUDPOpenErr(b); err == nil {
			d2, err := DecodeUDPOpenErr(d.Encode())
			verif_assert(err == nil && d2.RequestID == d.RequestID && d2.ErrorCode == d.ErrorCode && d2.Message == d.Message, "C05/udpopenerr-fixpoint")
		}
	case 2:
		if d, err := DecodeICMPOpenErr(b); err == nil {
			d2, err := DecodeICMPOpenErr(d.Encode())
			verif_assert(err == nil && d2.RequestID == d.RequestID && d2.ErrorCode == d.ErrorCode && d2.Message == d.Message, "C05/icmpopenerr-fixpoint")
		}
	}
}

// ---------- small fixed messages ----------

func harnessC05RT_Small() {
	verif_reach("C05/small-rt")
	c := verif_nondet_u16()
	d1, err := DecodeStreamReset((&StreamReset{ErrorCode: c}).Encode())
	verif_assert(err == nil && d1.ErrorCode == c, "C05/streamreset-roundtrip")
	ts := verif_nondet_u64()
	d2, err := DecodeKeepalive((&Keepalive{Timestamp: ts}).Encode())
	verif_assert(err == nil && d2.Timestamp == ts, "C05/keepalive-roundtrip")
	r := verif_nondet_u8()
	d3, err := DecodeUDPClose((&UDPClose{Reason: r}).Encode())
	verif_assert(err == nil && d3.Reason == r, "C05/udpclose-roundtrip")
	d4, err := DecodeICMPClose((&ICMPClose{Reason: r}).Encode())
	verif_assert(err == nil && d4.Reason == r, "C05/icmpclose-roundtrip")
	id, k := verif_nondet_u64(), c05Key()
	d5, err := DecodeICMPOpenAck((&ICMPOpenAck{RequestID: id, EphemeralPubKey: k}).Encode())
	verif_assert(err == nil && d5.RequestID == id && d5.EphemeralPubKey == k, "C05/icmpopenack-roundtrip")
}

func harnessC05Tot_Small() {
	b := c05Buf(8 + EphemeralKeySize + 2)
	verif_reach("C05/small-tot")
	if d, err := DecodeStreamReset(b); err == nil {
		d2, err := DecodeStreamReset(d.Encode())
		verif_assert(err == nil && d2.ErrorCode == d.ErrorCode, "C05/streamreset-fixpoint")
	}
	if d, err := DecodeKeepalive(b); err == nil {
		d2, err := DecodeKeepalive(d.Encode())
		verif_assert(err == nil && d2.Timestamp == d.Timestamp, "C05/keepalive-fixpoint")
	}
	if d, err := DecodeUDPClose(b); err == nil {
		d2, err := DecodeUDPClose(d.Encode())
		verif_assert(err == nil && d2.Reason == d.Reason, "C05/udpclose-fixpoint")
	}
	if d, err := DecodeICMPClose(b); err == nil {
		d2, err := DecodeICMPClose(d.Encode())
		verif_assert(err == nil && d2.Reason == d.Reason, "C05/icmpclose-fixpoint")
	}
	if d, err := DecodeICMPOpenAck(b); err == nil {
		d2, err := DecodeICMPOpenAck(d.Encode())
		verif_assert(err == nil && d2.RequestID == d.RequestID && d2.EphemeralPubKey == d.EphemeralPubKey, "C05/icmpopenack-fixpoint")
	}
}

// ---------- RouteAdvertise / RouteWithdraw ----------

func harnessC05RT_RouteAdvertise() {
	m := &RouteAdvertise{OriginAgent: c05ID(), OriginDisplayName: c05Str(1), Sequence: verif_nondet_u64(), Path: c05IDs(1), SeenBy: c05IDs(1)}
	nr := verif_choose(3)
	for i := 0; i < nr; i++ {
		m.Routes = append(m.Routes, c05Route())
	}
	d, err := DecodeRouteAdvertise(m.Encode())
	verif_reach("C05/routeadv-rt")
	verif_assert(err == nil, "C05/routeadv-decode-ok")
	verif_assert(c05AdvEq(d, m), "C05/routeadv-roundtrip")
	verif_assert(d.EncPath != nil && !d.EncPath.Encrypted, "C05/routeadv-plain-path-flag")
}

// encrypted path blob is carried verbatim
func harnessC05RT_RouteAdvertiseEnc() {
	m := &RouteAdvertise{OriginAgent: c05ID(), Sequence: verif_nondet_u64(), EncPath: &EncryptedData{Encrypted: true, Data: c05Bytes(3)}, SeenBy: c05IDs(1)}
	m.Routes = append(m.Routes, c05Route())
	d, err := DecodeRouteAdvertise(m.Encode())
	verif_reach("C05/routeadv-enc-rt")
	verif_assert(err == nil, "C05/routeadv-enc-decode-ok")
	verif_assert(d.OriginAgent == m.OriginAgent && d.Sequence == m.Sequence && c05RoutesEq(d.Routes, m.Routes) && c05IDsEq(d.SeenBy, m.SeenBy) && c05EncEq(d.EncPath, m.EncPath) && len(d.Path) == 0, "C05/routeadv-enc-roundtrip")
}

func harnessC05Tot_RouteAdvertise() {
	d, err := DecodeRouteAdvertise(c05Buf(28 + c05XAdv))
	if err != nil {
		return
	}
	verif_reach("C05/routeadv-tot")
	d2, err := DecodeRouteAdvertise(d.Encode())
	verif_assert(err == nil, "C05/routeadv-reencode-decodes")
	verif_assert(c05AdvEq(d2, d) && c05EncEq(d2.EncPath, d.EncPath), "C05/routeadv-fixpoint")
}

func harnessC05RT_RouteWithdraw() {
	m := &RouteWithdraw{OriginAgent: c05ID(), Sequence: verif_nondet_u64(), SeenBy: c05IDs(2)}
	nr := verif_choose(3)
	for i := 0; i < nr; i++ {
		// withdraws are only produced for CIDR routes (flood.WithdrawLocalRoutes)
		r := Route{PrefixLength: verif_nondet_u8(), Metric: verif_nondet_u16()}
		if verif_nondet_bool() {
			r.AddressFamily, r.Prefix = AddrFamilyIPv4, verif_nondet_bytes(4)
		} else {
			r.AddressFamily, r.Prefix = AddrFamilyIPv6, verif_nondet_bytes(16)
		}
		m.Routes = append(m.Routes, r)
	}
	d, err := DecodeRouteWithdraw(m.Encode())
	verif_reach("C05/routewd-rt")
	verif_assert(err == nil, "C05/routewd-decode-ok")
	verif_assert(c05WdEq(d, m), "C05/routewd-roundtrip")
}

func harnessC05Tot_RouteWithdraw() {
	d, err := DecodeRouteWithdraw(c05Buf(26 + c05XWd))
	if err != nil {
		return
	}
	verif_reach("C05/routewd-tot")
	d2, err := DecodeRouteWithdraw(d.Encode())
	verif_assert(err == nil && c05WdEq(d2, d), "C05/routewd-fixpoint")
}

// ---------- EncryptedData / Path ----------

func harnessC05RT_EncPath() {
	e := &EncryptedData{Encrypted: verif_nondet_bool(), Data: c05Bytes(3)}
	d, n, err := DecodeEncryptedData(EncodeEncryptedData(e))
	verif_reach("C05/enc-rt")
	verif_assert(err == nil && n == 3+len(e.Data) && c05EncEq(d, e), "C05/encdata-roundtrip")
	p := c05IDs(2)
	q, err := DecodePath(EncodePath(p))
	verif_assert(err == nil && c05IDsEq(p, q), "C05/path-roundtrip")
}

func harnessC05Tot_EncPath() {
	b := c05Buf(3 + c05XEnc)
	verif_reach("C05/enc-tot")
	if verif_choose(2) == 0 {
		if d, n, err := DecodeEncryptedData(b); err == nil {
			verif_assert(n <= len(b) && n == 3+len(d.Data), "C05/encdata-consumed-inside-buffer")
			d2, _, err := DecodeEncryptedData(EncodeEncryptedData(d))
			verif_assert(err == nil && c05EncEq(d2, d), "C05/encdata-fixpoint")
		}
		return
	}
	if p, err := DecodePath(b); err == nil {
		q, err := DecodePath(EncodePath(p))
		verif_assert(err == nil && c05IDsEq(p, q), "C05/path-fixpoint")
	}
}

// ---------- NodeInfo / NodeInfoAdvertise ----------

func c05NodeInfo() *NodeInfo {
	one := func() string { return verif_nondet_string(1) }
	ni := &NodeInfo{DisplayName: c05Str(2), Hostname: one(), OS: one(), Arch: verif_nondet_string(0), Version: one(), StartTime: verif_nondet_i64(), PublicKey: c05Key(),
		UDPEnabled: verif_nondet_bool(), FileTransferEnabled: verif_nondet_bool(), ShellEnabled: verif_nondet_bool(), IcmpEnabled: verif_nondet_bool()}
	n := verif_choose(2)
	for i := 0; i < n; i++ {
		ni.IPAddresses = append(ni.IPAddresses, one())
	}
	n = verif_choose(2)
	for i := 0; i < n; i++ {
		ni.Peers = append(ni.Peers, PeerConnectionInfo{PeerID: c05ID(), Transport: c05Str(1), RTTMs: verif_nondet_i64(), IsDialer: verif_nondet_bool()})
	}
	n = verif_choose(2)
	for i := 0; i < n; i++ {
		ni.ForwardListeners = append(ni.ForwardListeners, ForwardListenerInfo{Key: one(), Address: one()})
	}
	n = verif_choose(2)
	for i := 0; i < n; i++ {
		ni.Shells = append(ni.Shells, one())
	}
	return ni
}

func harnessC05RT_NodeInfo() {
	m := c05NodeInfo()
	d, err := DecodeNodeInfo(EncodeNodeInfo(m))
	verif_reach("C05/nodeinfo-rt")
	verif_assert(err == nil, "C05/nodeinfo-decode-ok")
	verif_assert(c05NodeInfoEq(d, m), "C05/nodeinfo-roundtrip")
}

func harnessC05Tot_NodeInfo() {
	// the declared minimum (37) is below the shortest decodable message (47): explore the
	// lengths around both instead of every length (string-list parsing forks per byte)
	lens := [...]int{0, 36, 37, 38, 46, 47, 47 + c05XNodeInfo}
	n := lens[verif_choose(len(lens))]
	verif_alloc_limit(256)
	d, err := DecodeNodeInfo(verif_nondet_bytes(n))
	if err != nil {
		return
	}
	verif_reach("C05/nodeinfo-tot")
	d2, err := DecodeNodeInfo(EncodeNodeInfo(d))
	verif_assert(err == nil, "C05/nodeinfo-reencode-decodes")
	verif_assert(c05NodeInfoEq(d2, d), "C05/nodeinfo-fixpoint")
}

func harnessC05RT_NodeInfoAdvertise() {
	m := &NodeInfoAdvertise{OriginAgent: c05ID(), Sequence: verif_nondet_u64(), Info: *c05NodeInfo(), SeenBy: c05IDs(2)}
	d, err := DecodeNodeInfoAdvertise(m.Encode())
	verif_reach("C05/nia-rt")
	verif_assert(err == nil, "C05/nia-decode-ok")
	verif_assert(c05NIAEq(d, m), "C05/nia-roundtrip")
}

func harnessC05RT_NodeInfoAdvertiseEnc() {
	m := &NodeInfoAdvertise{OriginAgent: c05ID(), Sequence: verif_nondet_u64(), EncInfo: &EncryptedData{Encrypted: true, Data: c05Bytes(3)}, SeenBy: c05IDs(2)}
	d, err := DecodeNodeInfoAdvertise(m.Encode())
	verif_reach("C05/nia-enc-rt")
	verif_assert(err == nil && d.OriginAgent == m.OriginAgent && d.Sequence == m.Sequence && c05IDsEq(d.SeenBy, m.SeenBy) && c05EncEq(d.EncInfo, m.EncInfo), "C05/nia-enc-roundtrip")
}

func harnessC05Tot_NodeInfoAdvertise() {
	// 16+8 header, 3 enc header, then NodeInfo (>= 37) + seenBy
	d, err := DecodeNodeInfoAdvertise(c05Buf(28 + 37 + c05XNIA))
	if err != nil {
		return
	}
	verif_reach("C05/nia-tot")
	d2, err := DecodeNodeInfoAdvertise(d.Encode())
	verif_assert(err == nil, "C05/nia-reencode-decodes")
	verif_assert(d2.OriginAgent == d.OriginAgent && d2.Sequence == d.Sequence && c05IDsEq(d2.SeenBy, d.SeenBy) && c05EncEq(d2.EncInfo, d.EncInfo) && c05NodeInfoEq(&d2.Info, &d.Info), "C05/nia-fixpoint")
}

// ---------- Control ----------

func harnessC05RT_Control() {
	m := &ControlRequest{RequestID: verif_nondet_u64(), ControlType: verif_nondet_u8(), TargetAgent: c05ID(), Path: c05IDs(2), Data: c05Bytes(3)}
	d, err := DecodeControlRequest(m.Encode())
	verif_reach("C05/control-rt")
	verif_assert(err == nil, "C05/controlreq-decode-ok")
	verif_assert(d.RequestID == m.RequestID && d.ControlType == m.ControlType && d.TargetAgent == m.TargetAgent && c05IDsEq(d.Path, m.Path) && c05BytesEq(d.Data, m.Data), "C05/controlreq-roundtrip")
	r := &ControlResponse{RequestID: verif_nondet_u64(), ControlType: verif_nondet_u8(), Success: verif_nondet_bool(), Data: c05Bytes(3)}
	e, err := DecodeControlResponse(r.Encode())
	verif_assert(err == nil && e.RequestID == r.RequestID && e.ControlType == r.ControlType && e.Success == r.Success && c05BytesEq(e.Data, r.Data), "C05/controlresp-roundtrip")
}

func harnessC05Tot_Control() {
	b := c05Buf(30 + c05XCtl)
	verif_reach("C05/control-tot")
	if verif_choose(2) == 0 {
		if d, err := DecodeControlRequest(b); err == nil {
			d2, err := DecodeControlRequest(d.Encode())
			verif_assert(err == nil && d2.RequestID == d.RequestID && d2.ControlType == d.ControlType && d2.TargetAgent == d.TargetAgent && c05IDsEq(d2.Path, d.Path) && c05BytesEq(d2.Data, d.Data), "C05/controlreq-fixpoint")
		}
		return
	}
	if d, err := DecodeControlResponse(b); err == nil {
		d2, err := DecodeControlResponse(d.Encode())
		verif_assert(err == nil && d2.RequestID == d.RequestID && d2.ControlType == d.ControlType && d2.Success == d.Success && c05BytesEq(d2.Data, d.Data), "C05/controlresp-fixpoint")
	}
}

// ---------- UDPDatagram ----------

func harnessC05RT_UDPDatagram() {
	t, a := c05Addr()
	m := &UDPDatagram{AddressType: t, Address: a, Port: verif_nondet_u16(), Data: c05Bytes(3)}
	d, err := DecodeUDPDatagram(m.Encode())
	verif_reach("C05/udpdgram-rt")
	verif_assert(err == nil, "C05/udpdgram-decode-ok")
	verif_assert(d.AddressType == m.AddressType && c05BytesEq(d.Address, m.Address) && d.Port == m.Port && c05BytesEq(d.Data, m.Data), "C05/udpdgram-roundtrip")
}

func harnessC05Tot_UDPDatagram() {
	d, err := DecodeUDPDatagram(c05Buf(6 + c05XDgram))
	if err != nil {
		return
	}
	verif_reach("C05/udpdgram-tot")
	d2, err := DecodeUDPDatagram(d.Encode())
	verif_assert(err == nil && d2.AddressType == d.AddressType && c05BytesEq(d2.Address, d.Address) && d2.Port == d.Port && c05BytesEq(d2.Data, d.Data), "C05/udpdgram-fixpoint")
}

// ---------- ICMP ----------

func harnessC05RT_ICMP() {
	m := &ICMPOpen{RequestID: verif_nondet_u64(), DestIP: c05Bytes(4), TTL: verif_nondet_u8(), RemainingPath: c05IDs(2), EphemeralPubKey: c05Key()}
	d, err := DecodeICMPOpen(m.Encode())
	verif_reach("C05/icmp-rt")
	verif_assert(err == nil, "C05/icmpopen-decode-ok")
	verif_assert(d.RequestID == m.RequestID && c05BytesEq(d.DestIP, m.DestIP) && d.TTL == m.TTL && c05IDsEq(d.RemainingPath, m.RemainingPath) && d.EphemeralPubKey == m.EphemeralPubKey, "C05/icmpopen-roundtrip")
	e := &ICMPEcho{Identifier: verif_nondet_u16(), Sequence: verif_nondet_u16(), IsReply: verif_nondet_bool(), SrcIP: c05Bytes(4), Data: c05Bytes(3)}
	f, err := DecodeICMPEcho(e.Encode())
	verif_assert(err == nil && f.Identifier == e.Identifier && f.Sequence == e.Sequence && f.IsReply == e.IsReply && c05BytesEq(f.SrcIP, e.SrcIP) && c05BytesEq(f.Data, e.Data), "C05/icmpecho-roundtrip")
}

func harnessC05Tot_ICMPOpen() {
	d, err := DecodeICMPOpen(c05Buf(11 + EphemeralKeySize + c05XIcmpOpen))
	if err != nil {
		return
	}
	verif_reach("C05/icmpopen-tot")
	d2, err := DecodeICMPOpen(d.Encode())
	verif_assert(err == nil && d2.RequestID == d.RequestID && c05BytesEq(d2.DestIP, d.DestIP) && d2.TTL == d.TTL && c05IDsEq(d2.RemainingPath, d.RemainingPath) && d2.EphemeralPubKey == d.EphemeralPubKey, "C05/icmpopen-fixpoint")
}

func harnessC05Tot_ICMPEcho() {
	d, err := DecodeICMPEcho(c05Buf(8 + c05XIcmpEcho))
	if err != nil {
		return
	}
	verif_reach("C05/icmpecho-tot")
	d2, err := DecodeICMPEcho(d.Encode())
	verif_assert(err == nil && d2.Identifier == d.Identifier && d2.Sequence == d.Sequence && d2.IsReply == d.IsReply && c05BytesEq(d2.SrcIP, d.SrcIP) && c05BytesEq(d2.Data, d.Data), "C05/icmpecho-fixpoint")
}

// ---------- Sleep / Wake ----------

func c05Sleep() *SleepCommand {
	return &SleepCommand{OriginAgent: c05ID(), CommandID: verif_nondet_u64(), Timestamp: verif_nondet_u64(), Signature: c05Sig(), SeenBy: c05IDs(2)}
}

func c05Wake() *WakeCommand {
	return &WakeCommand{OriginAgent: c05ID(), CommandID: verif_nondet_u64(), Timestamp: verif_nondet_u64(), Signature: c05Sig(), SeenBy: c05IDs(2)}
}

func harnessC05RT_SleepWake() {
	s := c05Sleep()
	d, err := DecodeSleepCommand(s.Encode())
	verif_reach("C05/sleepwake-rt")
	verif_assert(err == nil && c05SleepEq(d, s), "C05/sleep-roundtrip")
	w := c05Wake()
	e, err := DecodeWakeCommand(w.Encode())
	verif_assert(err == nil && c05WakeEq(e, w), "C05/wake-roundtrip")
	// signed bytes cover origin, id and timestamp
	sb := s.SignableBytes()
	verif_assert(len(sb) == 32 && c05BytesEq(sb[:16], s.OriginAgent[:]), "C05/sleep-signable")
}

func harnessC05Tot_SleepWake() {
	b := c05Buf(97 + c05XSleep)
	verif_reach("C05/sleepwake-tot")
	if verif_choose(2) == 0 {
		if d, err := DecodeSleepCommand(b); err == nil {
			d2, err := DecodeSleepCommand(d.Encode())
			verif_assert(err == nil && c05SleepEq(d2, d), "C05/sleep-fixpoint")
		}
		return
	}
	if d, err := DecodeWakeCommand(b); err == nil {
		d2, err := DecodeWakeCommand(d.Encode())
		verif_assert(err == nil && c05WakeEq(d2, d), "C05/wake-fixpoint")
	}
}

// ---------- QueuedState ----------

func harnessC05RT_QueuedState() {
	q := &QueuedState{}
	one := func() string { return verif_nondet_string(1) }
	if verif_nondet_bool() {
		q.Routes = append(q.Routes, RouteAdvertise{OriginAgent: c05ID(), OriginDisplayName: one(), Sequence: verif_nondet_u64(),
			Routes: []Route{{AddressFamily: AddrFamilyIPv4, PrefixLength: verif_nondet_u8(), Prefix: verif_nondet_bytes(4), Metric: verif_nondet_u16()}},
			Path:   []identity.AgentID{c05ID()}, SeenBy: c05IDs(1)})
	}
	if verif_nondet_bool() {
		q.Withdraws = append(q.Withdraws, RouteWithdraw{OriginAgent: c05ID(), Sequence: verif_nondet_u64(), Routes: []Route{{AddressFamily: AddrFamilyIPv4, PrefixLength: verif_nondet_u8(), Prefix: verif_nondet_bytes(4), Metric: verif_nondet_u16()}}, SeenBy: c05IDs(1)})
	}
	if verif_nondet_bool() {
		q.NodeInfos = append(q.NodeInfos, NodeInfoAdvertise{OriginAgent: c05ID(), Sequence: verif_nondet_u64(), Info: NodeInfo{DisplayName: one(), PublicKey: c05Key()}, SeenBy: c05IDs(1)})
	}
	if verif_nondet_bool() {
		q.SleepCmd = &SleepCommand{OriginAgent: c05ID(), CommandID: verif_nondet_u64(), Timestamp: verif_nondet_u64(), Signature: c05Sig(), SeenBy: c05IDs(1)}
	}
	if verif_nondet_bool() {
		q.WakeCmd = &WakeCommand{OriginAgent: c05ID(), CommandID: verif_nondet_u64(), Timestamp: verif_nondet_u64(), Signature: c05Sig(), SeenBy: c05IDs(1)}
	}
	d, err := DecodeQueuedState(q.Encode())
	verif_reach("C05/queued-rt")
	verif_assert(err == nil, "C05/queued-decode-ok")
	verif_assert(len(d.Routes) == len(q.Routes) && len(d.Withdraws) == len(q.Withdraws) && len(d.NodeInfos) == len(q.NodeInfos), "C05/queued-counts")
	if len(d.Routes) == 1 && len(q.Routes) == 1 {
		verif_assert(c05AdvEq(&d.Routes[0], &q.Routes[0]), "C05/queued-route")
	}
	if len(d.Withdraws) == 1 && len(q.Withdraws) == 1 {
		verif_assert(c05WdEq(&d.Withdraws[0], &q.Withdraws[0]), "C05/queued-withdraw")
	}
	if len(d.NodeInfos) == 1 && len(q.NodeInfos) == 1 {
		verif_assert(c05NIAEq(&d.NodeInfos[0], &q.NodeInfos[0]), "C05/queued-nodeinfo")
	}
	verif_assert(c05SleepEq(d.SleepCmd, q.SleepCmd), "C05/queued-sleep-command")
	verif_assert(c05WakeEq(d.WakeCmd, q.WakeCmd), "C05/queued-wake-command")
}

func harnessC05Tot_QueuedState() {
	d, err := DecodeQueuedState(c05Buf(8 + c05XQueued))
	if err != nil {
		return
	}
	verif_reach("C05/queued-tot")
	d2, err := DecodeQueuedState(d.Encode())
	verif_assert(err == nil, "C05/queued-reencode-decodes")
	verif_assert(len(d2.Routes) == len(d.Routes) && len(d2.Withdraws) == len(d.Withdraws) && len(d2.NodeInfos) == len(d.NodeInfos) && c05SleepEq(d2.SleepCmd, d.SleepCmd) && c05WakeEq(d2.WakeCmd, d.WakeCmd), "C05/queued-fixpoint")
}

// ---------- route prefix helpers ----------

func harnessC05Prefixes() {
	s, t := c05Str(3), c05Str(3)
	verif_reach("C05/prefixes")
	verif_assert(DecodeDomainPrefix(EncodeDomainPrefix(s)) == s, "C05/domain-prefix-roundtrip")
	verif_assert(DecodeForwardKey(EncodeForwardKey(s)) == s, "C05/forward-key-roundtrip")
	k, tg := DecodeForwardKeyAndTarget(EncodeForwardKeyWithTarget(s, t))
	verif_assert(k == s && tg == t, "C05/forward-key-target-roundtrip")
	verif_assert(DecodeForwardKey(EncodeForwardKeyWithTarget(s, t)) == s, "C05/forward-key-of-key-target")
	id := c05ID()
	verif_assert(DecodeAgentPrefix(EncodeAgentPrefix(id)) == id, "C05/agent-prefix-roundtrip")
	// total on arbitrary input
	b := c05Bytes(6)
	_ = DecodeDomainPrefix(b)
	_ = DecodeForwardKey(b)
	_, _ = DecodeForwardKeyAndTarget(b)
	_ = DecodeAgentPrefix(b)
}

func harnessC05Witness() {
	d, err := DecodeStreamOpen(verif_nondet_bytes(13 + EphemeralKeySize + 4))
	if err == nil && d.TTL == 7 {
		verif_assert(false, "witness")
	}
}
