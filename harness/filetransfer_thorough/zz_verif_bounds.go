package filetransfer

const (
	c27NameComps = 3
	c27LinkComps = 3
)

const (
	c26Comps  = 3
	c26LexLen = 7
)
