package filetransfer

const (
	c27NameComps = 3
	c27LinkComps = 3
)
