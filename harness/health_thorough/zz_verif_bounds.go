package health

const c24PathMax = 13
