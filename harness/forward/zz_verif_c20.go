package forward

import (
	"context"
	"errors"
	"net"

	"github.com/postalsys/muti-metroo/internal/crypto"
	"github.com/postalsys/muti-metroo/internal/identity"
)

// C20: a port-forward endpoint connects only to the target configured for the
// requested key; unknown keys get a not-found error and no connection.

var (
	c20Dialed   int
	c20DialAddr string
	c20ErrCode  uint16
	c20Errs     int
)

func c20Dial(d *net.Dialer, ctx context.Context, network, addr string) (net.Conn, error) {
	c20Dialed++
	c20DialAddr = addr
	if c03DialConn != nil {
		return c03DialConn, nil
	}
	return nil, errors.New("harness: dial recorded")
}

type c20Writer struct{}

func (c20Writer) WriteStreamData(peerID identity.AgentID, streamID uint64, data []byte, flags uint8) error {
	return nil
}
func (c20Writer) WriteStreamOpenAck(peerID identity.AgentID, streamID uint64, requestID uint64, boundIP net.IP, boundPort uint16, k [crypto.KeySize]byte) error {
	c03AckPub = k
	c03Acks++
	return nil
}
func (c20Writer) WriteStreamOpenErr(peerID identity.AgentID, streamID uint64, requestID uint64, errorCode uint16, message string) error {
	c20Errs++
	c20ErrCode = errorCode
	return nil
}
func (c20Writer) WriteStreamClose(peerID identity.AgentID, streamID uint64) error { return nil }

func harnessC20Open() {
	// 0..c20Endpoints endpoints with symbolic keys (1..c20KeyMax bytes) and targets (2 bytes)
	var cfg HandlerConfig
	n := verif_choose(c20Endpoints + 1)
	var keys, targets [c20Endpoints]string
	for i := 0; i < n; i++ {
		keys[i] = verif_nondet_string(1 + verif_choose(c20KeyMax))
		targets[i] = verif_nondet_string(2)
		cfg.Endpoints = append(cfg.Endpoints, Endpoint{Key: keys[i], Target: targets[i]})
	}
	h := NewHandler(cfg, identity.AgentID{1}, c20Writer{})
	h.Start()
	// requested key: shorter, equal-length and longer than configured keys, any bytes
	req := verif_nondet_string(verif_choose(c20ReqMax + 1))
	var key [crypto.KeySize]byte
	key[0] = 9
	c20Dialed, c20Errs = 0, 0
	err := h.HandleStreamOpen(context.Background(), 5, 6, identity.AgentID{2}, req, key)
	verif_drain()
	verif_reach("C20/open")
	// reference: the target of the last endpoint whose key is byte-equal to the request
	found := false
	want := ""
	for i := 0; i < n; i++ {
		if keys[i] == req {
			found = true
			want = targets[i]
		}
	}
	verif_assert(c20Dialed <= 1, "C20/at-most-one-dial")
	if !found {
		verif_assert(c20Dialed == 0, "C20/unknown-key-dials")
		verif_assert(err != nil && c20Errs == 1 && c20ErrCode == 40, "C20/unknown-key-gets-not-found")
	} else {
		verif_reach("C20/known-key")
		keyFailure := c20Errs == 1 && c20ErrCode == 18
		verif_assert(err == nil, "C20/known-key-accepted")
		verif_assert(c20Dialed == 1 || keyFailure, "C20/known-key-refused")
		if c20Dialed == 1 {
			verif_assert(c20DialAddr == want, "C20/dials-configured-target-of-that-key")
		}
	}
}

func harnessC20Witness() {
	h := NewHandler(HandlerConfig{Endpoints: []Endpoint{{Key: "k", Target: "t:1"}}}, identity.AgentID{1}, c20Writer{})
	h.Start()
	var key [crypto.KeySize]byte
	key[0] = 9
	c20Dialed = 0
	h.HandleStreamOpen(context.Background(), 5, 6, identity.AgentID{2}, verif_nondet_string(1), key)
	verif_drain()
	if c20Dialed == 1 {
		verif_assert(false, "witness")
	}
}
