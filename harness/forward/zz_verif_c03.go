package forward

import (
	"context"
	"net"
	"time"

	"github.com/postalsys/muti-metroo/internal/crypto"
	"github.com/postalsys/muti-metroo/internal/identity"
)

type c03Conn struct{ block chan struct{} }

func (c *c03Conn) Read(p []byte) (int, error)         { <-c.block; return 0, nil }
func (c *c03Conn) Write(p []byte) (int, error)        { return len(p), nil }
func (c *c03Conn) Close() error                       { return nil }
func (c *c03Conn) LocalAddr() net.Addr                { return &net.TCPAddr{IP: net.IP{127, 0, 0, 1}, Port: 1} }
func (c *c03Conn) RemoteAddr() net.Addr               { return &net.TCPAddr{IP: net.IP{127, 0, 0, 1}, Port: 2} }
func (c *c03Conn) SetDeadline(t time.Time) error      { return nil }
func (c *c03Conn) SetReadDeadline(t time.Time) error  { return nil }
func (c *c03Conn) SetWriteDeadline(t time.Time) error { return nil }

var (
	c03DialConn net.Conn
	c03AckPub   [crypto.KeySize]byte
	c03Acks     int
)

// C03 (port-forward responder)
func harnessC03ForwardResponder() {
	h := NewHandler(HandlerConfig{Endpoints: []Endpoint{{Key: "k", Target: "t:1"}}}, identity.AgentID{1}, c20Writer{})
	h.Start()
	c03DialConn = &c03Conn{}
	c03Acks, c20Errs = 0, 0
	ipriv, ipub, _ := crypto.GenerateEphemeralKeypair()
	reqID := verif_nondet_u64()
	h.HandleStreamOpen(context.Background(), 5, reqID, identity.AgentID{2}, "k", ipub)
	verif_drain()
	c03DialConn = nil
	verif_reach("C03/forward-responder")
	verif_assert(c03Acks == 1 && c20Errs == 0, "C03/forward-open-not-acknowledged")
	h.mu.RLock()
	ac := h.connections[5]
	h.mu.RUnlock()
	verif_assert(ac != nil && ac.sessionKey != nil, "C03/forward-no-session-key-installed")
	s, err := crypto.ComputeECDH(ipriv, c03AckPub)
	verif_assert(err == nil, "C03/forward-ack-key-refused")
	verif_assert(crypto.DeriveSessionKey(s, reqID, ipub, c03AckPub, true).Key() == ac.sessionKey.Key(), "C03/forward-key-differs-from-ingress-key")
}

// an all-zero or low-order remote key (ComputeECDH refuses it) is reported and
// leaves no tunnel and no key behind; every other key gets exactly one ack
func harnessC03ForwardDegenerate() {
	h := NewHandler(HandlerConfig{Endpoints: []Endpoint{{Key: "k", Target: "t:1"}}}, identity.AgentID{1}, c20Writer{})
	h.Start()
	c03DialConn = &c03Conn{}
	c03Acks, c20Errs = 0, 0
	// arbitrary remote key: all-zero, or a point whose (uninterpreted) product may be the zero secret
	var k [crypto.KeySize]byte
	k[0], k[31] = verif_nondet_u8(), verif_nondet_u8()
	h.HandleStreamOpen(context.Background(), 5, verif_nondet_u64(), identity.AgentID{2}, "k", k)
	verif_drain()
	c03DialConn = nil
	verif_reach("C03/forward-degenerate")
	h.mu.RLock()
	ac := h.connections[5]
	h.mu.RUnlock()
	verif_assert(c03Acks+c20Errs == 1, "C03/forward-open-answered-other-than-exactly-once")
	if c20Errs > 0 {
		verif_reach("C03/forward-degenerate-refused")
		verif_assert(c03Acks == 0 && ac == nil, "C03/forward-tunnel-kept-after-refused-key-agreement")
	}
	if k == ([crypto.KeySize]byte{}) {
		verif_assert(c20Errs == 1 && ac == nil, "C03/forward-accepted-all-zero-remote-key")
	}
}
