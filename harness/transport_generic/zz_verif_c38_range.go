package transport

// The same from an arbitrary counter state, without naming the counter's type:
// within the first 2^62 allocations two consecutive identifiers are non-zero,
// distinct, increasing and of the role's parity (a narrower counter wraps here).
func harnessC38Range() {
	isDialer := verif_nondet_bool()
	a := NewStreamIDAllocator(isDialer)
	first := a.Next()
	verif_havoc(&a.next)
	x := a.Next()
	verif_assume(x%2 == first%2 && x >= first && x-first < (1<<63))
	y := a.Next()
	verif_reach("C38/range")
	verif_assert(y != 0 && y != x, "C38/unique")
	verif_assert(y > x, "C38/identifier-sequence-wraps")
	verif_assert(y%2 == first%2, "C38/parity")
}
