package crypto

import "encoding/binary"

// C01: end-to-end sessions accept only fresh, authentic messages from the
// other end. C02: no nonce reuse under a session key.

func c01Key() [KeySize]byte {
	var k [KeySize]byte
	for i := range k {
		k[i] = verif_nondet_u8()
	}
	return k
}

// Bounded adversarial history, natively replayable: two genuine messages from
// the peer, one own message (reflection candidate), then up to three deliveries
// chosen by the adversary: genuine (any order, duplicates), reflected, forged
// with an arbitrary nonce, bit-flipped.
func harnessC01History() {
	key := c01Key()
	role := verif_nondet_bool()
	a := &SessionKey{key: key, isInitiator: role}
	b := &SessionKey{key: key, isInitiator: !role}
	base := verif_nondet_u64()
	verif_assume(base < (1<<64)-3) // the peer has sent base messages, all received in order
	b.sendNonce, a.recvNonce = base, base
	own := verif_nondet_u64()
	verif_assume(own < (1<<64)-3)
	a.sendNonce, b.recvNonce = own, own
	p1, p2, q := verif_nondet_bytes(1), verif_nondet_bytes(1), verif_nondet_bytes(1)
	c1, e1 := b.Encrypt(p1)
	c2, e2 := b.Encrypt(p2)
	r1, e3 := a.Encrypt(q)
	verif_assert(e1 == nil && e2 == nil && e3 == nil, "C01/encrypt-ok")
	got1, got2 := false, false
	for step := 0; step < c01Deliveries; step++ {
		kind := verif_choose(5)
		var frame []byte
		switch kind {
		case 0:
			frame = c1
		case 1:
			frame = c2
		case 2:
			frame = r1
		case 3: // forged: a genuine body under an arbitrary nonce (different from its own)
			frame = append([]byte{}, c1...)
			for i := 0; i < NonceSize; i++ {
				frame[i] = verif_nondet_u8()
			}
			same := true
			for i := 0; i < NonceSize; i++ {
				same = same && frame[i] == c1[i]
			}
			verif_assume(!same)
		case 4: // modified body
			frame = append([]byte{}, c2...)
			d := verif_nondet_u8()
			verif_assume(d != 0)
			frame[NonceSize] ^= d
		}
		before := a.recvNonce
		pt, err := a.Decrypt(frame)
		verif_reach("C01/delivered")
		if err == nil {
			verif_assert(kind != 2, "C01/reflected-message-accepted")
			verif_assert(kind != 3, "C01/forged-nonce-accepted")
			verif_assert(kind != 4, "C01/modified-message-accepted")
			if kind == 0 {
				verif_assert(!got1, "C01/accepted-twice")
				verif_assert(!got2, "C01/accepted-out-of-send-order")
				verif_assert(len(pt) == 1 && pt[0] == p1[0], "C01/plaintext-1")
				got1 = true
			}
			if kind == 1 {
				verif_assert(!got2, "C01/accepted-twice")
				verif_assert(len(pt) == 1 && pt[0] == p2[0], "C01/plaintext-2")
				got2 = true
			}
			verif_assert(a.recvNonce > before, "C01/window-advances")
		} else {
			verif_assert(a.recvNonce == before, "C01/rejected-input-changed-the-window")
		}
	}
}

// Inductive step on the receiver under the ideal-AEAD contract: Open can
// succeed only for a (nonce, body) some holder of the key sealed. Ghost state:
// the peer sealed counters < peerSent under its direction prefix, this side
// sealed counters < ownSent under its own prefix; invariant: every accepted
// counter is < recvNonce <= peerSent.
func harnessC01Step() {
	key := c01Key()
	role := verif_nondet_bool()
	s := &SessionKey{key: key, isInitiator: role}
	peerSent, ownSent, r := verif_nondet_u64(), verif_nondet_u64(), verif_nondet_u64()
	verif_assume(r <= peerSent)
	s.recvNonce, s.sendNonce = r, ownSent
	var peerPrefix, ownPrefix byte
	if role {
		peerPrefix = 0x80
	} else {
		ownPrefix = 0x80
	}
	verif_aead_open_oracle(func(nonce, ct []byte) bool {
		if !verif_nondet_bool() { // authentication may always fail (bit flips, forgeries)
			return false
		}
		zero := nonce[1] == 0 && nonce[2] == 0 && nonce[3] == 0
		ctr := binary.BigEndian.Uint64(nonce[4:])
		fromPeer := nonce[0] == peerPrefix && zero && ctr < peerSent
		fromSelf := nonce[0] == ownPrefix && zero && ctr < ownSent
		return fromPeer || fromSelf
	})
	frame := verif_nondet_bytes(NonceSize + TagSize + 1)
	ctr := binary.BigEndian.Uint64(frame[4:NonceSize])
	_, err := s.Decrypt(frame)
	verif_reach("C01/step")
	if err == nil {
		verif_reach("C01/step-accept")
		verif_assert(frame[0] == peerPrefix, "C01/step-accepted-own-direction")
		verif_assert(ctr < peerSent, "C01/step-accepted-unsent-counter")
		verif_assert(ctr >= r, "C01/step-accepted-stale-counter")
		verif_assert(s.recvNonce == ctr+1 && s.recvNonce > ctr, "C01/step-window-not-past-accepted")
		verif_assert(s.recvNonce <= peerSent, "C01/step-invariant")
	} else {
		verif_assert(s.recvNonce == r, "C01/step-rejected-input-changed-the-window")
	}
}

// ---------- C02 ----------

// Atomic-step induction: one Encrypt from an arbitrary counter uses exactly the
// nonce prefix(role)||counter, prepends it, and advances the counter under the
// mutex. Nonces of the two directions never coincide.
func harnessC02Step() {
	key := c01Key()
	role := verif_nondet_bool()
	s := &SessionKey{key: key, isInitiator: role}
	a := verif_nondet_u64()
	verif_assume(a < (1<<64)-1) // bound: fewer than 2^64-1 messages per direction
	s.sendNonce = a
	verif_guarded(&s.sendNonce, &s.mu)
	var used [NonceSize]byte
	seen := 0
	verif_aead_seal_hook(func(nonce, pt []byte) {
		copy(used[:], nonce)
		seen++
	})
	pt := verif_nondet_bytes(2)
	out, err := s.Encrypt(pt)
	verif_reach("C02/step")
	verif_assert(err == nil && seen == 1, "C02/one-seal-per-encrypt")
	var want byte
	if !role {
		want = 0x80
	}
	verif_assert(used[0] == want && used[1] == 0 && used[2] == 0 && used[3] == 0, "C02/direction-prefix")
	verif_assert(binary.BigEndian.Uint64(used[4:]) == a, "C02/nonce-is-counter")
	s.mu.Lock()
	verif_assert(s.sendNonce == a+1, "C02/counter-advances")
	s.mu.Unlock()
	verif_assert(len(out) == len(pt)+EncryptionOverhead, "C02/output-length")
	same := true
	for i := 0; i < NonceSize; i++ {
		same = same && out[i] == used[i]
	}
	verif_assert(same, "C02/nonce-prepended")
	// the other direction can never produce this nonce, whatever its counter
	o := &SessionKey{key: key, isInitiator: !role, sendNonce: verif_nondet_u64()}
	on := o.buildSendNonce()
	verif_assert(on != used, "C02/directions-disjoint")
	// and the receive side expects exactly the peer's prefix
	rn := o.buildRecvNonce()
	verif_assert(rn[0] == used[0], "C02/recv-prefix-is-peer-send-prefix")
}

// Two concurrent senders (2 + 1 messages), every interleaving at the synchronisation operations.
func harnessC02Concurrent() {
	key := c01Key()
	s := &SessionKey{key: key, isInitiator: verif_nondet_bool()}
	a := verif_nondet_u64()
	verif_assume(a < (1<<64)-5)
	s.sendNonce = a
	var nonces [3]uint64
	n := 0
	_ = nonces[2]
	verif_aead_seal_hook(func(nonce, pt []byte) {
		nonces[n] = binary.BigEndian.Uint64(nonce[4:])
		n++
	})
	done := make(chan struct{}, 1)
	go func() {
		s.Encrypt([]byte{1})
		s.Encrypt([]byte{2})
		done <- struct{}{}
	}()
	s.Encrypt([]byte{3})
	<-done
	verif_reach("C02/concurrent")
	verif_assert(n == 3, "C02/conc-three-seals")
	for i := 0; i < 3; i++ {
		for j := i + 1; j < 3; j++ {
			verif_assert(nonces[i] != nonces[j], "C02/conc-nonce-reused")
		}
	}
}

func harnessC01Witness() {
	key := c01Key()
	a := &SessionKey{key: key, isInitiator: true}
	b := &SessionKey{key: key, isInitiator: false}
	c, _ := b.Encrypt([]byte{7})
	pt, err := a.Decrypt(c)
	if err == nil && len(pt) == 1 && pt[0] == 7 {
		verif_assert(false, "witness")
	}
}
