package crypto

// C03 (kernel): both ends derive the same key; tunnels differing in request id
// or in either ephemeral key derive different keys; degenerate remote keys are
// refused. X25519 and HKDF are uninterpreted (DH commutes on honest keys, HKDF
// is injective).

func c03Tunnel(reqID uint64) (ik, rk *SessionKey, ip, rp [KeySize]byte, ok bool) {
	ipriv, ipub, e1 := GenerateEphemeralKeypair()
	rpriv, rpub, e2 := GenerateEphemeralKeypair()
	verif_assert(e1 == nil && e2 == nil, "C03/keypair-generation")
	// responder: sees the initiator's public key
	rs, err := ComputeECDH(rpriv, ipub)
	verif_assert(err == nil, "C03/honest-exchange-refused-at-responder")
	rk = DeriveSessionKey(rs, reqID, ipub, rpub, false)
	// initiator: sees the responder's public key
	is, err := ComputeECDH(ipriv, rpub)
	verif_assert(err == nil, "C03/honest-exchange-refused-at-initiator")
	ik = DeriveSessionKey(is, reqID, ipub, rpub, true)
	return ik, rk, ipub, rpub, true
}

func harnessC03SameKey() {
	id := verif_nondet_u64()
	ik, rk, _, _, _ := c03Tunnel(id)
	verif_reach("C03/same-key")
	verif_assert(ik.Key() == rk.Key(), "C03/ends-derive-different-keys")
	verif_assert(ik.isInitiator && !rk.isInitiator, "C03/roles")
	// the pair actually interoperates
	ct, err := ik.Encrypt([]byte{verif_nondet_u8()})
	verif_assert(err == nil, "C03/encrypt")
	_, err = rk.Decrypt(ct)
	verif_assert(err == nil, "C03/peer-cannot-decrypt")
}

func harnessC03DistinctKeys() {
	id1, id2 := verif_nondet_u64(), verif_nondet_u64()
	k1, _, ip1, rp1, _ := c03Tunnel(id1)
	k2, _, ip2, rp2, _ := c03Tunnel(id2)
	verif_reach("C03/distinct")
	differ := id1 != id2 || ip1 != ip2 || rp1 != rp2
	if differ {
		verif_assert(k1.Key() != k2.Key(), "C03/distinct-tunnels-share-a-key")
	}
	// same secret, same public keys, different request id
	var secret, a, b [KeySize]byte
	for i := range secret {
		secret[i], a[i], b[i] = verif_nondet_u8(), verif_nondet_u8(), verif_nondet_u8()
	}
	if id1 != id2 {
		verif_assert(DeriveSessionKey(secret, id1, a, b, true).Key() != DeriveSessionKey(secret, id2, a, b, true).Key(), "C03/request-id-not-mixed-into-key")
	}
	if a != b {
		verif_assert(DeriveSessionKey(secret, id1, a, b, true).Key() != DeriveSessionKey(secret, id1, b, a, true).Key(), "C03/key-order-not-mixed-into-key")
	}
	// each ephemeral public key is mixed in on its own: with everything else equal (also the
	// shared secret, as for responder keys that are different encodings of one point), a
	// different initiator key or a different responder key gives a different session key
	var c [KeySize]byte
	for i := range c {
		c[i] = verif_nondet_u8()
	}
	if c != b {
		verif_assert(DeriveSessionKey(secret, id1, a, b, true).Key() != DeriveSessionKey(secret, id1, a, c, true).Key(), "C03/responder-key-not-mixed-into-key")
	}
	if c != a {
		verif_assert(DeriveSessionKey(secret, id1, a, b, true).Key() != DeriveSessionKey(secret, id1, c, b, true).Key(), "C03/initiator-key-not-mixed-into-key")
	}
}

func harnessC03Degenerate() {
	priv, _, _ := GenerateEphemeralKeypair()
	var remote [KeySize]byte
	for i := range remote {
		remote[i] = verif_nondet_u8()
	}
	secret, err := ComputeECDH(priv, remote)
	verif_reach("C03/degenerate")
	var zero [KeySize]byte
	if remote == zero {
		verif_assert(err != nil, "C03/all-zero-remote-key-accepted")
	}
	if err == nil {
		verif_assert(secret != zero, "C03/zero-shared-secret-accepted")
	}
}
