package main

import (
	"go/token"
	"go/types"

	"golang.org/x/tools/go/ssa"
)

// Diamond merging: at an If with a symbolic condition, try to execute both
// arms speculatively when they are short, side-effect free and non-trapping and
// meet again at one join block. The join's phis then become ite terms and no
// fork is needed (this is what keeps `a && b && c` and small if/else
// assignments from multiplying paths).

type specAbort struct{}

type mergeEdge struct {
	pred *ssa.BasicBlock
	cond *Term
}

const mergeMaxInstrs = 60

// tryMerge returns true if the region starting at the If was merged; fr.block /
// fr.prevBlock are then positioned at the join with phis already evaluated.
func (in *Interp) tryMerge(fr *frame, ifInstr *ssa.If, cond *Term) (merged bool) {
	if in.cfg.NoMerge {
		return false
	}
	b := fr.block
	var edges []mergeEdge
	var join *ssa.BasicBlock
	budget := mergeMaxInstrs
	ok := true
	func() {
		defer func() {
			if r := recover(); r != nil {
				if _, is := r.(specAbort); is {
					ok = false
					return
				}
				panic(r)
			}
		}()
		in.spec++
		defer func() { in.spec-- }()
		var walk func(blk, prev *ssa.BasicBlock, pc *Term, depth int)
		walk = func(blk, prev *ssa.BasicBlock, pc *Term, depth int) {
			if len(blk.Preds) > 1 {
				if join == nil {
					join = blk
				}
				if join != blk {
					panic(specAbort{})
				}
				edges = append(edges, mergeEdge{prev, pc})
				return
			}
			if depth > 6 {
				panic(specAbort{})
			}
			// single predecessor: phis (if any) have one edge
			for _, instr := range blk.Instrs {
				budget--
				if budget < 0 {
					panic(specAbort{})
				}
				switch instr := instr.(type) {
				case *ssa.Phi:
					fr.env[instr] = fr.get(instr.Edges[0])
				case *ssa.Jump:
					walk(blk.Succs[0], blk, pc, depth+1)
					return
				case *ssa.If:
					c := fr.get(instr.Cond).(*Term)
					if c.IsTrue() {
						walk(blk.Succs[0], blk, pc, depth+1)
					} else if c.IsFalse() {
						walk(blk.Succs[1], blk, pc, depth+1)
					} else {
						walk(blk.Succs[0], blk, in.tc.And(pc, c), depth+1)
						walk(blk.Succs[1], blk, in.tc.And(pc, in.tc.Not(c)), depth+1)
					}
					return
				default:
					if !in.specPure(fr, instr) {
						panic(specAbort{})
					}
					in.visitInstr(fr, instr)
				}
			}
			panic(specAbort{})
		}
		walk(b.Succs[0], b, cond, 0)
		walk(b.Succs[1], b, in.tc.Not(cond), 0)
	}()
	if !ok || join == nil || len(edges) < 2 {
		return false
	}
	// all phis of the join must be mergeable values
	var phis []*ssa.Phi
	for _, instr := range join.Instrs {
		if p, isPhi := instr.(*ssa.Phi); isPhi {
			phis = append(phis, p)
		} else {
			break
		}
	}
	vals := make([]Value, len(phis))
	for pi, phi := range phis {
		var acc Value
		for ei := len(edges) - 1; ei >= 0; ei-- {
			e := edges[ei]
			idx := -1
			for k, p := range join.Preds {
				if p == e.pred {
					idx = k
					break
				}
			}
			if idx < 0 {
				return false
			}
			v := fr.get(phi.Edges[idx])
			if acc == nil {
				acc = v
				continue
			}
			m, okm := in.iteValPure(e.cond, v, acc)
			if !okm {
				return false
			}
			acc = m
		}
		vals[pi] = acc
	}
	for pi, phi := range phis {
		fr.env[phi] = vals[pi]
	}
	fr.prevBlock = edges[0].pred
	fr.block = join
	fr.skipPhis = true
	in.stats.Merges++
	return true
}

// iteValPure merges two values without forking; fails when shapes differ.
func (in *Interp) iteValPure(c *Term, a, b Value) (Value, bool) {
	switch av := a.(type) {
	case *Term:
		bv, ok := b.(*Term)
		if !ok || av.w != bv.w {
			return nil, false
		}
		return in.tc.Ite(c, av, bv), true
	case *StrV:
		bv, ok := b.(*StrV)
		if !ok {
			return nil, false
		}
		if av == bv {
			return av, true
		}
		if av.op != nil || bv.op != nil || len(av.b) != len(bv.b) {
			return nil, false
		}
		r := make([]*Term, len(av.b))
		for i := range r {
			r[i] = in.tc.Ite(c, av.b[i], bv.b[i])
		}
		return &StrV{b: r}, true
	case Struct:
		bv, ok := b.(Struct)
		if !ok || len(av) != len(bv) {
			return nil, false
		}
		r := make(Struct, len(av))
		for i := range av {
			m, ok := in.iteValPure(c, av[i], bv[i])
			if !ok {
				return nil, false
			}
			r[i] = m
		}
		return r, true
	case Array:
		bv, ok := b.(Array)
		if !ok || len(av) != len(bv) {
			return nil, false
		}
		r := make(Array, len(av))
		for i := range av {
			m, ok := in.iteValPure(c, av[i], bv[i])
			if !ok {
				return nil, false
			}
			r[i] = m
		}
		return r, true
	case FloatV:
		bv, ok := b.(FloatV)
		if ok && av.f == bv.f {
			return av, true
		}
		return nil, false
	case Iface:
		bv, ok := b.(Iface)
		if !ok {
			return nil, false
		}
		if av.t == nil && bv.t == nil {
			return av, true
		}
		if av.t == nil || bv.t == nil || !types.Identical(av.t, bv.t) {
			return nil, false
		}
		m, ok := in.iteValPure(c, av.v, bv.v)
		if !ok {
			return nil, false
		}
		return Iface{t: av.t, v: m}, true
	case nil:
		if b == nil {
			return nil, true
		}
		return nil, false
	}
	if in.eqConcrete(a, b) {
		return a, true
	}
	return nil, false
}

// specPure: may this instruction be executed speculatively? It must not trap,
// fork, block, call interpreted code or write memory.
func (in *Interp) specPure(fr *frame, instr ssa.Instruction) bool {
	switch instr := instr.(type) {
	case *ssa.DebugRef:
		return true
	case *ssa.BinOp:
		switch instr.Op {
		case token.QUO, token.REM:
			y, ok := fr.get(instr.Y).(*Term)
			return ok && y.IsConst() && y.k != 0
		case token.SHL, token.SHR:
			y, ok := fr.get(instr.Y).(*Term)
			return ok && (y.IsConst() || !isSigned(instr.Y.Type()))
		}
		if _, isIface := instr.X.Type().Underlying().(*types.Interface); isIface {
			return false
		}
		return true
	case *ssa.UnOp:
		switch instr.Op {
		case token.NOT, token.SUB, token.XOR:
			return true
		case token.MUL:
			p, ok := fr.get(instr.X).(*Value)
			if !ok || p == nil {
				return false
			}
			if _, guarded := in.guarded[p]; guarded {
				return false
			}
			return true
		}
		return false
	case *ssa.Convert:
		// conversions between scalars only
		_, ok := fr.get(instr.X).(*Term)
		if !ok {
			return false
		}
		return isIntegerT(instr.Type()) && !in.intMode
	case *ssa.ChangeType:
		return true
	case *ssa.Extract, *ssa.Field:
		return true
	case *ssa.FieldAddr:
		p, ok := fr.get(instr.X).(*Value)
		return ok && p != nil
	case *ssa.IndexAddr:
		idx, ok := fr.get(instr.Index).(*Term)
		if !ok || !idx.IsConst() {
			return false
		}
		switch x := fr.get(instr.X).(type) {
		case SliceV:
			return int64(idx.k) >= 0 && int64(idx.k) < int64(x.n)
		case *Value:
			if x == nil {
				return false
			}
			return int64(idx.k) >= 0 && int64(idx.k) < int64(len((*x).(Array)))
		}
		return false
	case *ssa.Index:
		idx, ok := fr.get(instr.Index).(*Term)
		if !ok || !idx.IsConst() {
			return false
		}
		switch x := fr.get(instr.X).(type) {
		case Array:
			return int64(idx.k) >= 0 && int64(idx.k) < int64(len(x))
		case *StrV:
			return x.op == nil && int64(idx.k) >= 0 && int64(idx.k) < int64(len(x.b))
		}
		return false
	case *ssa.Lookup:
		if s, ok := fr.get(instr.X).(*StrV); ok && !instr.CommaOk {
			idx, ok := fr.get(instr.Index).(*Term)
			return ok && s.op == nil && idx.IsConst() && int64(idx.k) >= 0 && int64(idx.k) < int64(len(s.b))
		}
		return false
	case *ssa.Call:
		if b, ok := instr.Call.Value.(*ssa.Builtin); ok {
			switch b.Name() {
			case "len", "cap":
				return true
			}
		}
		return false
	case *ssa.MakeInterface:
		return true
	}
	return false
}
