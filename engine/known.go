package main

// Constant propagation over equalities learnt on the path: when a
// concretisation or an equality branch fixes a term built from one variable by
// +const / zero-extension / sign-extension, the variable's value is recorded and
// later terms over known variables evaluate to constants without a solver call.
// (Keeps offsets concrete after `offset += length` once `length` was decided.)

func (in *Interp) learn(t *Term, v uint64) {
	if in.known == nil {
		in.known = map[*Term]uint64{}
	}
	for depth := 0; depth < 16; depth++ {
		switch t.op {
		case OpVar:
			if t.w > 0 {
				v &= mask(t.w)
			}
			in.known[t] = v
			return
		case OpZExt:
			inner := t.args[0]
			if v&^mask(inner.w) != 0 {
				return
			}
			t = inner
		case OpSExt:
			inner := t.args[0]
			t, v = inner, v&mask(inner.w)
		case OpAdd:
			a, b := t.args[0], t.args[1]
			if b.IsConst() {
				t, v = a, (v-b.k)&mask(t.w)
			} else if a.IsConst() {
				t, v = b, (v-a.k)&mask(t.w)
			} else if av, ok := in.evalKnown(a); ok {
				t, v = b, (v-av)&mask(t.w)
			} else if bv, ok := in.evalKnown(b); ok {
				t, v = a, (v-bv)&mask(t.w)
			} else {
				return
			}
		case OpSub:
			a, b := t.args[0], t.args[1]
			if bv, ok := in.evalKnown(b); ok {
				t, v = a, (v+bv)&mask(t.w)
			} else {
				return
			}
		default:
			return
		}
		if t.w <= 0 {
			return
		}
	}
}

// evalKnown evaluates t when all its variables are known.
func (in *Interp) evalKnown(t *Term) (uint64, bool) {
	if t.IsConst() {
		return t.k, true
	}
	if len(in.known) == 0 || t.w == WInt {
		return 0, false
	}
	return in.evalRec(t, 0)
}

func (in *Interp) evalRec(t *Term, depth int) (uint64, bool) {
	if t.IsConst() {
		return t.k, true
	}
	if depth > 40 {
		return 0, false
	}
	if t.op == OpVar {
		v, ok := in.known[t]
		return v, ok
	}
	if t.w == WInt {
		return 0, false
	}
	var av, bv, cv uint64
	var ok bool
	if len(t.args) >= 1 {
		if t.args[0].w == WInt {
			return 0, false
		}
		if av, ok = in.evalRec(t.args[0], depth+1); !ok {
			return 0, false
		}
	}
	if t.op == OpIte {
		if av != 0 {
			return in.evalRec(t.args[1], depth+1)
		}
		return in.evalRec(t.args[2], depth+1)
	}
	if len(t.args) >= 2 {
		if bv, ok = in.evalRec(t.args[1], depth+1); !ok {
			return 0, false
		}
	}
	_ = cv
	w := t.w
	aw := 0
	if len(t.args) > 0 {
		aw = t.args[0].w
	}
	b2u := func(b bool) (uint64, bool) {
		if b {
			return 1, true
		}
		return 0, true
	}
	switch t.op {
	case OpAdd:
		return (av + bv) & mask(w), true
	case OpSub:
		return (av - bv) & mask(w), true
	case OpMul:
		return (av * bv) & mask(w), true
	case OpAnd:
		return av & bv, true
	case OpOr:
		return av | bv, true
	case OpXor:
		return av ^ bv, true
	case OpNot:
		return ^av & mask(w), true
	case OpNeg:
		return (-av) & mask(w), true
	case OpShl:
		if bv >= uint64(w) {
			return 0, true
		}
		return (av << bv) & mask(w), true
	case OpLShr:
		if bv >= uint64(w) {
			return 0, true
		}
		return av >> bv, true
	case OpZExt:
		return av, true
	case OpSExt:
		return uint64(sext64(av, aw)) & mask(w), true
	case OpExtract:
		lo := t.k & 0xffff
		return (av >> lo) & mask(w), true
	case OpConcat:
		return (av<<uint(t.args[1].w) | bv) & mask(w), true
	case OpEq:
		return b2u(av == bv)
	case OpULt:
		return b2u(av < bv)
	case OpULe:
		return b2u(av <= bv)
	case OpSLt:
		return b2u(sext64(av, aw) < sext64(bv, aw))
	case OpSLe:
		return b2u(sext64(av, aw) <= sext64(bv, aw))
	case OpBAnd:
		return b2u(av != 0 && bv != 0)
	case OpBOr:
		return b2u(av != 0 || bv != 0)
	case OpBNot:
		return b2u(av == 0)
	case OpUDiv:
		if bv == 0 {
			return 0, false
		}
		return av / bv, true
	case OpURem:
		if bv == 0 {
			return 0, false
		}
		return av % bv, true
	}
	return 0, false
}

// simp replaces t by a constant when its variables are known.
func (in *Interp) simp(t *Term) *Term {
	if t.IsConst() || len(in.known) == 0 {
		return t
	}
	if v, ok := in.evalKnown(t); ok {
		return in.constLike(t, v)
	}
	return t
}
