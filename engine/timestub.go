package main

import (
	"go/types"

	"golang.org/x/tools/go/ssa"
)

// Abstract clock. time.Time{wall, ext, loc} is re-used as: wall = 1 for a
// non-zero instant (0 for the zero Time), ext = nanoseconds since the Unix
// epoch, loc = nil. All time.Time methods used by the repo are intercepted, so
// the real (branch-heavy, monotonic-clock aware) representation never leaks.

const nowMax = uint64(1) << 62

func (in *Interp) mkTime(ns *Term) Value {
	return Struct{in.tc.BV(64, 1), ns, (*Value)(nil)}
}

func (in *Interp) timeParts(v Value) (wall, ext *Term) {
	s := v.(Struct)
	return s[0].(*Term), s[1].(*Term)
}

func (in *Interp) i64c(v int64) *Term {
	if in.intMode {
		return in.tc.IntC(v)
	}
	return in.tc.BV(64, uint64(v))
}

func (in *Interp) timeNow() Value {
	if in.nowOverride != nil {
		return in.mkTime(in.nowOverride)
	}
	var t *Term
	if in.intMode {
		t = in.nondet("now", WInt)
	} else {
		t = in.nondet("now", 64)
	}
	lo := in.i64c(0)
	if in.lastNow != nil {
		lo = in.lastNow
	}
	in.assume(in.tc.And(in.tc.Le(lo, t, true), in.tc.Lt(t, in.i64c(int64(nowMax)), true)))
	in.lastNow = t
	return in.mkTime(t)
}

func (in *Interp) timeSub(t, u Value) *Term {
	tc := in.tc
	tw, te := in.timeParts(t)
	uw, ue := in.timeParts(u)
	d := in.arith(OpSub, te, ue, "Time.Sub")
	if !in.intMode && !d.IsConst() {
		// Time.Sub saturates instead of wrapping
		zero64 := tc.BV(64, 0)
		tNeg, uNeg, dNeg := tc.Lt(te, zero64, true), tc.Lt(ue, zero64, true), tc.Lt(d, zero64, true)
		ovf := tc.And(tc.Not(tc.Eq(tNeg, uNeg)), tc.Not(tc.Eq(dNeg, tNeg)))
		if in.branch(ovf) {
			panic(pathEnd{"cut", "Time.Sub saturates (instants further apart than 292 years: outside the modelled clock range)"})
		}
	}
	one := tc.BV(64, 1)
	zero := tc.BV(64, 0)
	maxD := in.i64c(1<<63 - 1)
	minD := in.i64c(-1 << 63)
	if in.intMode {
		minD = in.i64c(-(1<<63 - 1) - 1)
	}
	r := tc.Ite(tc.And(tc.Eq(tw, one), tc.Eq(uw, zero)), maxD,
		tc.Ite(tc.And(tc.Eq(tw, zero), tc.Eq(uw, one)), minD, d))
	return r
}

func (in *Interp) timeBefore(t, u Value) *Term {
	tc := in.tc
	tw, te := in.timeParts(t)
	uw, ue := in.timeParts(u)
	return tc.Ite(tc.Eq(tw, uw), tc.Lt(te, ue, true), tc.Lt(tw, uw, false))
}

func (in *Interp) timeEqual(t, u Value) *Term {
	tc := in.tc
	tw, te := in.timeParts(t)
	uw, ue := in.timeParts(u)
	return tc.And(tc.Eq(tw, uw), tc.Eq(te, ue))
}

func fieldIndex(t types.Type, name string) int {
	st := t.Underlying().(*types.Struct)
	for i := 0; i < st.NumFields(); i++ {
		if st.Field(i).Name() == name {
			return i
		}
	}
	return -1
}

func (in *Interp) newTimerObj(fn *ssa.Function, withChan bool, ticker bool, cb Value, dur *Term) (Value, *timerObj) {
	// result type is *time.Timer or *time.Ticker
	pt := fn.Signature.Results().At(0).Type()
	st := mustDeref(pt)
	obj := in.zero(st)
	slot := new(Value)
	*slot = obj
	t := &timerObj{id: len(in.timers), fn: cb, ticker: ticker, dur: dur, handle: slot}
	if withChan {
		in.chanID++
		t.ch = &ChanV{cap: 1, id: in.chanID}
		if i := fieldIndex(st, "C"); i >= 0 {
			(*slot).(Struct)[i] = t.ch
		}
	}
	in.timers = append(in.timers, t)
	return slot, t
}

func (in *Interp) timerOf(p *Value) *timerObj {
	for _, t := range in.timers {
		if t.handle == p {
			return t
		}
	}
	return nil
}

func (in *Interp) fireTimer(t *timerObj) {
	if t.stopped || (t.fired && !t.ticker) {
		return
	}
	t.fired = true
	if t.fn != nil {
		in.spawn(t.fn, nil, 0)
		return
	}
	if t.ch != nil && len(t.ch.buf) < t.ch.cap {
		t.ch.buf = append(t.ch.buf, in.timeNow())
	}
}

func registerTime() {
	intrinsics["time.Now"] = func(in *Interp, fr *frame, a []Value) Value { return in.timeNow() }
	intrinsics["time.Since"] = func(in *Interp, fr *frame, a []Value) Value { return in.timeSub(in.timeNow(), a[0]) }
	intrinsics["time.Until"] = func(in *Interp, fr *frame, a []Value) Value { return in.timeSub(a[0], in.timeNow()) }
	intrinsics["(time.Time).Sub"] = func(in *Interp, fr *frame, a []Value) Value { return in.timeSub(a[0], a[1]) }
	intrinsics["(time.Time).Add"] = func(in *Interp, fr *frame, a []Value) Value {
		w, e := in.timeParts(a[0])
		_ = w
		return Struct{in.tc.BV(64, 1), in.arith(OpAdd, e, a[1].(*Term), "Time.Add"), (*Value)(nil)}
	}
	intrinsics["(time.Time).After"] = func(in *Interp, fr *frame, a []Value) Value { return in.timeBefore(a[1], a[0]) }
	intrinsics["(time.Time).Before"] = func(in *Interp, fr *frame, a []Value) Value { return in.timeBefore(a[0], a[1]) }
	intrinsics["(time.Time).Equal"] = func(in *Interp, fr *frame, a []Value) Value { return in.timeEqual(a[0], a[1]) }
	intrinsics["(time.Time).Compare"] = func(in *Interp, fr *frame, a []Value) Value {
		tc := in.tc
		return tc.Ite(in.timeBefore(a[0], a[1]), tc.BV(64, ^uint64(0)), tc.Ite(in.timeEqual(a[0], a[1]), tc.BV(64, 0), tc.BV(64, 1)))
	}
	intrinsics["(time.Time).IsZero"] = func(in *Interp, fr *frame, a []Value) Value {
		w, _ := in.timeParts(a[0])
		return in.tc.Eq(w, in.tc.BV(64, 0))
	}
	intrinsics["(time.Time).UnixNano"] = func(in *Interp, fr *frame, a []Value) Value {
		_, e := in.timeParts(a[0])
		return e
	}
	intrinsics["(time.Time).Unix"] = func(in *Interp, fr *frame, a []Value) Value {
		_, e := in.timeParts(a[0])
		return in.floorDiv(e, 1000000000)
	}
	intrinsics["(time.Time).UnixMilli"] = func(in *Interp, fr *frame, a []Value) Value {
		_, e := in.timeParts(a[0])
		return in.floorDiv(e, 1000000)
	}
	intrinsics["(time.Time).UnixMicro"] = func(in *Interp, fr *frame, a []Value) Value {
		_, e := in.timeParts(a[0])
		return in.floorDiv(e, 1000)
	}
	for _, n := range []string{"UTC", "Local", "Round", "Truncate"} {
		intrinsics["(time.Time)."+n] = func(in *Interp, fr *frame, a []Value) Value { return a[0] }
	}
	intrinsics["(time.Time).In"] = func(in *Interp, fr *frame, a []Value) Value { return a[0] }
	intrinsics["(time.Time).Format"] = func(in *Interp, fr *frame, a []Value) Value {
		_, e := in.timeParts(a[0])
		return in.opaque("timefmt", e)
	}
	intrinsics["(time.Time).String"] = intrinsics["(time.Time).Format"]
	intrinsics["(time.Time).MarshalJSON"] = func(in *Interp, fr *frame, a []Value) Value {
		in.unsupported("Time.MarshalJSON")
		return nil
	}
	intrinsics["time.Unix"] = func(in *Interp, fr *frame, a []Value) Value {
		tc := in.tc
		sec, nsec := a[0].(*Term), a[1].(*Term)
		if !in.intMode {
			// keep |sec| < 2^32 so that sec*1e9 cannot wrap and differences of instants
			// cannot saturate; the other side is cut
			lim := tc.BV(64, 1<<32)
			inr := tc.And(tc.Lt(tc.Neg(lim), sec, true), tc.Lt(sec, lim, true))
			if !in.branch(inr) {
				panic(pathEnd{"cut", "time.Unix seconds beyond +-2^32 (outside the modelled clock range)"})
			}
		}
		ns := tc.Add(tc.Mul(sec, in.i64c(1000000000)), nsec)
		return in.mkTime(ns)
	}
	intrinsics["time.UnixMilli"] = func(in *Interp, fr *frame, a []Value) Value {
		tc := in.tc
		ms := a[0].(*Term)
		if !in.intMode {
			lim := tc.BV(64, 1<<43)
			inr := tc.And(tc.Lt(tc.Neg(lim), ms, true), tc.Lt(ms, lim, true))
			if !in.branch(inr) {
				panic(pathEnd{"cut", "time.UnixMilli beyond the modelled clock range"})
			}
		}
		return in.mkTime(tc.Mul(ms, in.i64c(1000000)))
	}
	intrinsics["time.Sleep"] = func(in *Interp, fr *frame, a []Value) Value { in.yield(); return nil }
	intrinsics["time.AfterFunc"] = func(in *Interp, fr *frame, a []Value) Value {
		fn := in.lookupFn("time", "AfterFunc")
		h, _ := in.newTimerObj(fn, false, false, a[1], a[0].(*Term))
		return h
	}
	intrinsics["time.NewTimer"] = func(in *Interp, fr *frame, a []Value) Value {
		fn := in.lookupFn("time", "NewTimer")
		h, _ := in.newTimerObj(fn, true, false, nil, a[0].(*Term))
		return h
	}
	intrinsics["time.NewTicker"] = func(in *Interp, fr *frame, a []Value) Value {
		fn := in.lookupFn("time", "NewTicker")
		h, _ := in.newTimerObj(fn, true, true, nil, a[0].(*Term))
		return h
	}
	intrinsics["time.After"] = func(in *Interp, fr *frame, a []Value) Value {
		fn := in.lookupFn("time", "NewTimer")
		_, t := in.newTimerObj(fn, true, false, nil, a[0].(*Term))
		return t.ch
	}
	intrinsics["time.Tick"] = func(in *Interp, fr *frame, a []Value) Value {
		fn := in.lookupFn("time", "NewTicker")
		_, t := in.newTimerObj(fn, true, true, nil, a[0].(*Term))
		return t.ch
	}
	intrinsics["(*time.Timer).Stop"] = func(in *Interp, fr *frame, a []Value) Value {
		p := a[0].(*Value)
		if p == nil {
			in.goPanic("invalid memory address or nil pointer dereference")
		}
		t := in.timerOf(p)
		if t == nil {
			return in.tc.tFalse
		}
		was := !t.stopped && !t.fired
		t.stopped = true
		return in.tc.Bool(was)
	}
	intrinsics["(*time.Timer).Reset"] = func(in *Interp, fr *frame, a []Value) Value {
		p := a[0].(*Value)
		t := in.timerOf(p)
		if t == nil {
			return in.tc.tFalse
		}
		was := !t.stopped && !t.fired
		t.stopped, t.fired = false, false
		t.dur = a[1].(*Term)
		return in.tc.Bool(was)
	}
	intrinsics["(*time.Ticker).Stop"] = func(in *Interp, fr *frame, a []Value) Value {
		if t := in.timerOf(a[0].(*Value)); t != nil {
			t.stopped = true
		}
		return nil
	}
	intrinsics["(*time.Ticker).Reset"] = noop
	intrinsics["(time.Duration).String"] = func(in *Interp, fr *frame, a []Value) Value {
		return in.opaque("durstr", a[0])
	}
}

// floorDiv for non-negative-range instants: Go's Unix() floors.
func (in *Interp) floorDiv(e *Term, k int64) *Term {
	tc := in.tc
	if in.intMode {
		return tc.mk(OpApp, WInt, 0, "div", []*Term{e, tc.IntC(k)})
	}
	kk := tc.BV(64, uint64(k))
	q := tc.bin(OpSDiv, e, kk)
	r := tc.bin(OpSRem, e, kk)
	neg := tc.Lt(r, tc.BV(64, 0), true)
	return tc.Ite(neg, tc.Sub(q, tc.BV(64, 1)), q)
}

func (in *Interp) lookupFn(pkg, name string) *ssa.Function {
	p := in.prog.ImportedPackage(pkg)
	if p == nil {
		in.unsupported("package %s not loaded", pkg)
	}
	return p.Func(name)
}

// arith: + and - on instants; in Int mode the result carries a no-overflow obligation.
func (in *Interp) arith(op Op, a, b *Term, what string) *Term {
	tc := in.tc
	r := tc.bin(op, a, b)
	if a.w == WInt && !r.IsConst() {
		in.obligation(tc.And(tc.Le(tc.IntC(-1<<63), r, true), tc.Le(r, tc.IntC(1<<63-1), true)), "int64 overflow in "+what)
	}
	return r
}
