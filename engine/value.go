package main

import (
	"fmt"
	"go/types"
	"net"
	"strings"

	"golang.org/x/tools/go/ssa"
)

// Value domain. Heap shape is concrete; scalars are *Term.
//
//	*Term              bool and all integer kinds (bit-vector of the type's width; Int in int-mode)
//	FloatV             float32/64 (concrete, or FP term - not yet)
//	*StrV              string (concrete length, symbolic bytes)
//	Struct             []Value
//	Array              []Value
//	[]Value (SliceV)   slice (shares backing store like Go)
//	*Value             pointer
//	*SymPtr            pointer to a cell selected by a symbolic index
//	Iface              interface value (nil interface = Iface{})
//	Tuple              multi-value
//	*Closure, *ssa.Function, *ssa.Builtin   functions
//	*MapV, *ChanV
//	*Native            opaque engine object
type Value interface{}

type FloatV struct{ f float64 }

type StrV struct {
	b  []*Term // each 8-bit
	op *Opaque // non-nil: opaque formatted token (b is nil)
}

type Opaque struct {
	kind string
	args []Value
	id   int
}

type Struct []Value
type Array []Value
type SliceV struct {
	a   []Value // full backing array
	off int
	n   int
	c   int
	nil bool
}
type Tuple []Value

type Iface struct {
	t types.Type
	v Value
}

type Closure struct {
	fn  *ssa.Function
	env []Value
}

type SymPtr struct {
	cells []Value // addressable cells (slots of the backing array)
	idx   *Term   // 64-bit index into cells, proven in range
	field []int   // optional field path inside each cell
}

type Native struct {
	kind string
	v    interface{}
}

type mapEntry struct {
	k, v Value
}

type MapV struct {
	ents  []*mapEntry
	index map[string]int // concrete key fast path: key string -> position
	kt    types.Type
}

type ChanV struct {
	buf    []Value
	cap    int
	closed bool
	id     int
	// rendezvous bookkeeping for unbuffered channels
	recvWaiting int
}

type Bad struct{}

func (s *StrV) Len() int { return len(s.b) }

func (s *StrV) Concrete() (string, bool) {
	if s.op != nil {
		return "", false
	}
	bs := make([]byte, len(s.b))
	for i, t := range s.b {
		if !t.IsConst() {
			return "", false
		}
		bs[i] = byte(t.k)
	}
	return string(bs), true
}

func (in *Interp) mkStr(s string) *StrV {
	b := make([]*Term, len(s))
	for i := 0; i < len(s); i++ {
		b[i] = in.byteConst(s[i])
	}
	return &StrV{b: b}
}

func (in *Interp) byteConst(b byte) *Term {
	if t := in.byteTab[b]; t != nil {
		return t
	}
	t := in.tc.BV(8, uint64(b))
	in.byteTab[b] = t
	return t
}

// ---------- type helpers ----------

func isNamedStruct(t types.Type) bool {
	_, ok := t.Underlying().(*types.Struct)
	return ok
}

func (in *Interp) widthOf(t types.Type) int {
	switch b := t.Underlying().(type) {
	case *types.Basic:
		switch b.Kind() {
		case types.Bool, types.UntypedBool:
			return WBool
		case types.Int8, types.Uint8:
			return 8
		case types.Int16, types.Uint16:
			return 16
		case types.Int32, types.Uint32, types.UntypedRune:
			return 32
		case types.Int, types.Uint, types.Int64, types.Uint64, types.Uintptr, types.UntypedInt:
			if in.intMode && (b.Kind() == types.Int64 || b.Kind() == types.Int) {
				return WInt
			}
			return 64
		case types.UnsafePointer:
			return 64
		}
	}
	panic(fmt.Sprintf("widthOf: not a scalar type %v", t))
}

func isSigned(t types.Type) bool {
	if b, ok := t.Underlying().(*types.Basic); ok {
		return b.Info()&types.IsInteger != 0 && b.Info()&types.IsUnsigned == 0
	}
	return false
}

func isIntegerT(t types.Type) bool {
	if b, ok := t.Underlying().(*types.Basic); ok {
		return b.Info()&types.IsInteger != 0
	}
	return false
}
func isFloatT(t types.Type) bool {
	if b, ok := t.Underlying().(*types.Basic); ok {
		return b.Info()&types.IsFloat != 0
	}
	return false
}
func isStringT(t types.Type) bool {
	if b, ok := t.Underlying().(*types.Basic); ok {
		return b.Info()&types.IsString != 0
	}
	return false
}
func isBoolT(t types.Type) bool {
	if b, ok := t.Underlying().(*types.Basic); ok {
		return b.Info()&types.IsBoolean != 0
	}
	return false
}

// zero returns the zero value of type t.
func (in *Interp) zero(t types.Type) Value {
	switch u := t.Underlying().(type) {
	case *types.Basic:
		switch {
		case u.Kind() == types.UntypedNil:
			return nil
		case u.Info()&types.IsBoolean != 0:
			return in.tc.tFalse
		case u.Info()&types.IsInteger != 0 || u.Kind() == types.UnsafePointer:
			w := in.widthOf(t)
			if w == WInt {
				return in.tc.IntC(0)
			}
			return in.tc.BV(w, 0)
		case u.Info()&types.IsFloat != 0:
			return FloatV{0}
		case u.Info()&types.IsString != 0:
			return in.emptyStr
		case u.Info()&types.IsComplex != 0:
			return Bad{}
		}
	case *types.Pointer:
		return (*Value)(nil)
	case *types.Struct:
		s := make(Struct, u.NumFields())
		for i := range s {
			s[i] = in.zero(u.Field(i).Type())
		}
		return s
	case *types.Array:
		a := make(Array, u.Len())
		et := u.Elem()
		// fast path for scalar elements
		if len(a) > 0 {
			z := in.zero(et)
			if _, ok := z.(*Term); ok {
				for i := range a {
					a[i] = z
				}
			} else {
				a[0] = z
				for i := 1; i < len(a); i++ {
					a[i] = in.zero(et)
				}
			}
		}
		return a
	case *types.Slice:
		return SliceV{nil: true}
	case *types.Interface:
		return Iface{}
	case *types.Map:
		return (*MapV)(nil)
	case *types.Chan:
		return (*ChanV)(nil)
	case *types.Signature:
		return (*ssa.Function)(nil)
	case *types.Tuple:
		if u.Len() == 1 {
			return in.zero(u.At(0).Type())
		}
		tp := make(Tuple, u.Len())
		for i := range tp {
			tp[i] = in.zero(u.At(i).Type())
		}
		return tp
	}
	panic(fmt.Sprintf("zero: unexpected type %v", t))
}

// copyVal makes a deep copy of aggregates (struct/array), as Go assignment does.
func copyVal(v Value) Value {
	switch v := v.(type) {
	case Struct:
		n := make(Struct, len(v))
		for i, f := range v {
			n[i] = copyVal(f)
		}
		return n
	case Array:
		n := make(Array, len(v))
		for i, f := range v {
			n[i] = copyVal(f)
		}
		return n
	}
	return v
}

func (s SliceV) Len() int { return s.n }

func (s SliceV) At(i int) *Value { return &s.a[s.off+i] }

// ---------- equality ----------

// eq returns a Bool term for x == y at static type t (may be an interface).
func (in *Interp) eq(t types.Type, x, y Value) *Term {
	tc := in.tc
	switch x := x.(type) {
	case *Term:
		yt, ok := y.(*Term)
		if !ok {
			return tc.tFalse
		}
		if x.w != yt.w {
			return tc.tFalse
		}
		return tc.Eq(x, yt)
	case FloatV:
		yf, ok := y.(FloatV)
		return tc.Bool(ok && x.f == yf.f)
	case *StrV:
		ys, ok := y.(*StrV)
		if !ok {
			return tc.tFalse
		}
		return in.strEq(x, ys)
	case Struct:
		ys, ok := y.(Struct)
		if !ok || len(ys) != len(x) {
			return tc.tFalse
		}
		r := tc.tTrue
		for i := range x {
			r = tc.And(r, in.eq(nil, x[i], ys[i]))
			if r.IsFalse() {
				return r
			}
		}
		return r
	case Array:
		ys, ok := y.(Array)
		if !ok || len(ys) != len(x) {
			return tc.tFalse
		}
		r := tc.tTrue
		for i := range x {
			r = tc.And(r, in.eq(nil, x[i], ys[i]))
			if r.IsFalse() {
				return r
			}
		}
		return r
	case *Value:
		yp, ok := y.(*Value)
		if !ok {
			if y == nil {
				return tc.Bool(x == nil)
			}
			return tc.tFalse
		}
		return tc.Bool(x == yp)
	case Iface:
		yi, ok := y.(Iface)
		if !ok {
			if y == nil {
				return tc.Bool(x.t == nil)
			}
			return tc.tFalse
		}
		if x.t == nil || yi.t == nil {
			return tc.Bool(x.t == nil && yi.t == nil)
		}
		if !types.Identical(x.t, yi.t) {
			return tc.tFalse
		}
		return in.eq(x.t, x.v, yi.v)
	case *MapV:
		ym, _ := y.(*MapV)
		return tc.Bool(x == ym)
	case *ChanV:
		yc, _ := y.(*ChanV)
		return tc.Bool(x == yc)
	case SliceV:
		// only comparison with nil is legal
		return tc.Bool(x.nil)
	case *ssa.Function:
		yf, ok := y.(*ssa.Function)
		if ok {
			return tc.Bool(x == yf)
		}
		if y == nil {
			return tc.Bool(x == nil)
		}
		return tc.tFalse
	case *Closure:
		yc, ok := y.(*Closure)
		return tc.Bool(ok && x == yc)
	case *Native:
		yn, ok := y.(*Native)
		return tc.Bool(ok && x == yn)
	case *SymPtr:
		return tc.Bool(x == y)
	case nil:
		switch y := y.(type) {
		case nil:
			return tc.tTrue
		case *Value:
			return tc.Bool(y == nil)
		case Iface:
			return tc.Bool(y.t == nil)
		case *MapV:
			return tc.Bool(y == nil)
		case *ChanV:
			return tc.Bool(y == nil)
		case SliceV:
			return tc.Bool(y.nil)
		case *ssa.Function:
			return tc.Bool(y == nil)
		case *Closure:
			return tc.tFalse
		}
	}
	panic(fmt.Sprintf("eq: unsupported %T vs %T", x, y))
}

func (in *Interp) strEq(x, y *StrV) *Term {
	tc := in.tc
	if x.op != nil || y.op != nil {
		return in.opaqueEq(x, y)
	}
	if len(x.b) != len(y.b) {
		return tc.tFalse
	}
	r := tc.tTrue
	for i := range x.b {
		r = tc.And(r, tc.Eq(x.b[i], y.b[i]))
		if r.IsFalse() {
			return r
		}
	}
	return r
}

func (in *Interp) opaqueEq(x, y *StrV) *Term {
	tc := in.tc
	if x.op == nil || y.op == nil {
		op, plain := x, y
		if x.op == nil {
			op, plain = y, x
		}
		if r, ok := in.opaqueVsPlain(op, plain); ok {
			return r
		}
		// an opaque token compared with a plain string: cannot decide
		in.unsupported("comparison of opaque formatted string with plain string")
	}
	if x.op == y.op {
		return tc.tTrue
	}
	if x.op.kind != y.op.kind || len(x.op.args) != len(y.op.args) {
		in.unsupported("comparison of opaque tokens of different constructors")
	}
	r := tc.tTrue
	for i := range x.op.args {
		r = tc.And(r, in.eq(nil, x.op.args[i], y.op.args[i]))
	}
	return r
}

// ---------- map keys ----------

// keyString returns a canonical string for fully concrete comparable values.
func keyString(v Value) (string, bool) {
	var sb strings.Builder
	if !writeKey(&sb, v) {
		return "", false
	}
	return sb.String(), true
}

func writeKey(sb *strings.Builder, v Value) bool {
	switch v := v.(type) {
	case *Term:
		if !v.IsConst() {
			return false
		}
		fmt.Fprintf(sb, "i%d:%x;", v.w, v.k)
	case FloatV:
		fmt.Fprintf(sb, "f%v;", v.f)
	case *StrV:
		s, ok := v.Concrete()
		if !ok {
			return false
		}
		fmt.Fprintf(sb, "s%d:%s;", len(s), s)
	case Struct:
		sb.WriteString("{")
		for _, f := range v {
			if !writeKey(sb, f) {
				return false
			}
		}
		sb.WriteString("}")
	case Array:
		sb.WriteString("[")
		for _, f := range v {
			if !writeKey(sb, f) {
				return false
			}
		}
		sb.WriteString("]")
	case *Value:
		fmt.Fprintf(sb, "p%p;", v)
	case Iface:
		if v.t == nil {
			sb.WriteString("nil;")
			return true
		}
		fmt.Fprintf(sb, "I%s:", v.t.String())
		return writeKey(sb, v.v)
	case *ChanV:
		fmt.Fprintf(sb, "c%p;", v)
	case *Native:
		fmt.Fprintf(sb, "n%p;", v)
	default:
		return false
	}
	return true
}

func (in *Interp) valueString(v Value) string {
	switch v := v.(type) {
	case *Term:
		if v.IsConst() {
			if v.w == WBool {
				return fmt.Sprint(v.k == 1)
			}
			return fmt.Sprintf("%d", v.k)
		}
		return "<sym>"
	case *StrV:
		if s, ok := v.Concrete(); ok {
			return fmt.Sprintf("%q", s)
		}
		return "<symstr>"
	case Iface:
		if v.t == nil {
			return "nil"
		}
		return v.t.String() + ":" + in.valueString(v.v)
	}
	return fmt.Sprintf("%T", v)
}

// opaqueVsPlain decides equality of an injective token with a concrete string
// by parsing the string back into the token's arguments.
func (in *Interp) opaqueVsPlain(op, plain *StrV) (*Term, bool) {
	cs, ok := plain.Concrete()
	if !ok {
		return nil, false
	}
	tc := in.tc
	mk := func(b []byte) *StrV {
		ts := make([]*Term, len(b))
		for i := range b {
			ts[i] = tc.BV(8, uint64(b[i]))
		}
		return &StrV{b: ts}
	}
	if cs == "" {
		switch op.op.kind {
		case "itoa", "formatint", "formatuint", "quote", "hostport", "ipstr", "ipnet", "timefmt", "durstr":
			return tc.tFalse, true // these never print as the empty string
		}
	}
	if strings.HasPrefix(op.op.kind, "sprintf:") {
		// the literal text before the first verb must be a prefix of the result
		f := strings.TrimPrefix(op.op.kind, "sprintf:")
		lit := f
		if i := strings.IndexByte(f, '%'); i >= 0 {
			lit = f[:i]
		}
		if !strings.HasPrefix(cs, lit) {
			return tc.tFalse, true
		}
		return nil, false
	}
	switch op.op.kind {
	case "ipnet":
		_, n, err := net.ParseCIDR(cs)
		if err != nil || n.String() != cs {
			return tc.tFalse, true
		}
		ipArg, maskArg := op.op.args[0].(*StrV), op.op.args[1].(*StrV)
		ip := []byte(n.IP)
		if len(ipArg.b) == 4 {
			if v4 := n.IP.To4(); v4 != nil {
				ip = v4
			}
		}
		return tc.And(in.strEq(ipArg, mk(ip)), in.strEq(maskArg, mk(n.Mask))), true
	case "ipstr":
		ip := net.ParseIP(cs)
		if ip == nil || ip.String() != cs {
			return tc.tFalse, true
		}
		arg := op.op.args[0].(*StrV)
		b := []byte(ip)
		if len(arg.b) == 4 {
			v4 := ip.To4()
			if v4 == nil {
				return tc.tFalse, true
			}
			b = v4
		} else if ip.To4() != nil {
			return tc.tFalse, true // a 16-byte non-mapped token never prints as dotted quad
		}
		return in.strEq(arg, mk(b)), true
	}
	return nil, false
}
