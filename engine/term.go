package main

// SMT terms: hash-consed, constant-folded. Sorts: Bool (w==0), BitVec w (w>0),
// Int (w==-1), uninterpreted sort (w==-2, name in sortName).

import (
	"fmt"
	"math/bits"
	"strings"
)

type Op int

const (
	OpConst Op = iota
	OpVar
	OpAdd
	OpSub
	OpMul
	OpUDiv
	OpURem
	OpSDiv
	OpSRem
	OpAnd
	OpOr
	OpXor
	OpNot // bvnot
	OpNeg
	OpShl
	OpLShr
	OpAShr
	OpConcat
	OpExtract // k = hi<<16|lo
	OpZExt    // k = extra bits
	OpSExt
	OpIte
	OpEq
	OpULt
	OpULe
	OpSLt
	OpSLe
	OpBAnd // boolean
	OpBOr
	OpBNot
	OpApp // uninterpreted function application; name = function
	// Int-sort ops
	OpILt
	OpILe
	OpIDivT // truncated division (Go semantics), encoded via div/abs
	OpIRemT
)

const (
	WBool = 0
	WInt  = -1
)

type Term struct {
	op   Op
	args []*Term
	w    int
	k    uint64
	name string
	id   int
}

type termKey struct {
	op         Op
	w          int
	k          uint64
	name       string
	a0, a1, a2 int
	rest       string
}

type TermCtx struct {
	tab    map[termKey]*Term
	nextID int
	vars   []*Term           // declared variables in creation order
	ufs    map[string]string // UF name -> declaration
	ufOrd  []string
	tTrue  *Term
	tFalse *Term
}

func NewTermCtx() *TermCtx {
	c := &TermCtx{tab: map[termKey]*Term{}, ufs: map[string]string{}}
	c.tTrue = c.mk(OpConst, WBool, 1, "", nil)
	c.tFalse = c.mk(OpConst, WBool, 0, "", nil)
	return c
}

func (c *TermCtx) mk(op Op, w int, k uint64, name string, args []*Term) *Term {
	key := termKey{op: op, w: w, k: k, name: name, a0: -1, a1: -1, a2: -1}
	switch len(args) {
	case 0:
	case 1:
		key.a0 = args[0].id
	case 2:
		key.a0, key.a1 = args[0].id, args[1].id
	case 3:
		key.a0, key.a1, key.a2 = args[0].id, args[1].id, args[2].id
	default:
		var sb strings.Builder
		for _, a := range args {
			fmt.Fprintf(&sb, "%d,", a.id)
		}
		key.rest = sb.String()
	}
	if t, ok := c.tab[key]; ok {
		return t
	}
	t := &Term{op: op, args: args, w: w, k: k, name: name, id: c.nextID}
	c.nextID++
	c.tab[key] = t
	return t
}

func mask(w int) uint64 {
	if w >= 64 {
		return ^uint64(0)
	}
	return (uint64(1) << uint(w)) - 1
}

func (t *Term) IsConst() bool { return t.op == OpConst }
func (t *Term) IsTrue() bool  { return t.op == OpConst && t.w == WBool && t.k == 1 }
func (t *Term) IsFalse() bool { return t.op == OpConst && t.w == WBool && t.k == 0 }

// signed value of a BV constant
func (t *Term) SVal() int64 {
	if t.w >= 64 || t.w <= 0 {
		return int64(t.k)
	}
	s := uint(64 - t.w)
	return int64(t.k<<s) >> s
}

func (c *TermCtx) Bool(b bool) *Term {
	if b {
		return c.tTrue
	}
	return c.tFalse
}
func (c *TermCtx) BV(w int, v uint64) *Term { return c.mk(OpConst, w, v&mask(w), "", nil) }
func (c *TermCtx) IntC(v int64) *Term       { return c.mk(OpConst, WInt, uint64(v), "", nil) }

func (c *TermCtx) Var(name string, w int) *Term {
	key := termKey{op: OpVar, w: w, name: name, a0: -1, a1: -1, a2: -1}
	if t, ok := c.tab[key]; ok {
		return t
	}
	t := c.mk(OpVar, w, 0, name, nil)
	c.vars = append(c.vars, t)
	return t
}

func sortStr(w int) string {
	switch {
	case w == WBool:
		return "Bool"
	case w == WInt:
		return "Int"
	default:
		return fmt.Sprintf("(_ BitVec %d)", w)
	}
}

// App: uninterpreted function; result width rw.
func (c *TermCtx) App(fn string, rw int, args ...*Term) *Term {
	if _, ok := c.ufs[fn]; !ok {
		var sb strings.Builder
		fmt.Fprintf(&sb, "(declare-fun %s (", fn)
		for i, a := range args {
			if i > 0 {
				sb.WriteByte(' ')
			}
			sb.WriteString(sortStr(a.w))
		}
		fmt.Fprintf(&sb, ") %s)", sortStr(rw))
		c.ufs[fn] = sb.String()
		c.ufOrd = append(c.ufOrd, fn)
	}
	return c.mk(OpApp, rw, 0, fn, args)
}

func sext64(v uint64, w int) int64 {
	if w >= 64 {
		return int64(v)
	}
	s := uint(64 - w)
	return int64(v<<s) >> s
}

func (c *TermCtx) bin(op Op, a, b *Term) *Term {
	if a.w != b.w {
		panic(fmt.Sprintf("term width mismatch op=%d %d vs %d", op, a.w, b.w))
	}
	w := a.w
	if w == WInt {
		return c.binInt(op, a, b)
	}
	if a.IsConst() && b.IsConst() {
		x, y := a.k, b.k
		m := mask(w)
		switch op {
		case OpAdd:
			return c.BV(w, x+y)
		case OpSub:
			return c.BV(w, x-y)
		case OpMul:
			return c.BV(w, x*y)
		case OpUDiv:
			if y == 0 {
				return c.BV(w, m)
			}
			return c.BV(w, x/y)
		case OpURem:
			if y == 0 {
				return c.BV(w, x)
			}
			return c.BV(w, x%y)
		case OpSDiv:
			if y == 0 {
				break
			}
			sx, sy := sext64(x, w), sext64(y, w)
			if sy == -1 {
				return c.BV(w, uint64(-sx))
			}
			return c.BV(w, uint64(sx/sy))
		case OpSRem:
			if y == 0 {
				break
			}
			sx, sy := sext64(x, w), sext64(y, w)
			if sy == -1 {
				return c.BV(w, 0)
			}
			return c.BV(w, uint64(sx%sy))
		case OpAnd:
			return c.BV(w, x&y)
		case OpOr:
			return c.BV(w, x|y)
		case OpXor:
			return c.BV(w, x^y)
		case OpShl:
			if y >= uint64(w) {
				return c.BV(w, 0)
			}
			return c.BV(w, x<<y)
		case OpLShr:
			if y >= uint64(w) {
				return c.BV(w, 0)
			}
			return c.BV(w, x>>y)
		case OpAShr:
			sx := sext64(x, w)
			if y >= uint64(w) {
				y = uint64(w - 1)
			}
			return c.BV(w, uint64(sx>>y))
		}
	}
	// identities
	switch op {
	case OpAdd:
		if a.IsConst() && a.k == 0 {
			return b
		}
		if b.IsConst() && b.k == 0 {
			return a
		}
		if a.IsConst() { // canonical: const on the right
			a, b = b, a
		}
	case OpSub:
		if b.IsConst() && b.k == 0 {
			return a
		}
		if a == b {
			return c.BV(w, 0)
		}
	case OpMul:
		if a.IsConst() {
			a, b = b, a
		}
		if b.IsConst() {
			if b.k == 0 {
				return b
			}
			if b.k == 1 {
				return a
			}
		}
	case OpAnd:
		if a.IsConst() {
			a, b = b, a
		}
		if b.IsConst() {
			if b.k == 0 {
				return b
			}
			if b.k == mask(w) {
				return a
			}
		}
		if a == b {
			return a
		}
	case OpOr:
		if a.IsConst() {
			a, b = b, a
		}
		if b.IsConst() {
			if b.k == 0 {
				return a
			}
			if b.k == mask(w) {
				return b
			}
		}
		if a == b {
			return a
		}
	case OpXor:
		if a.IsConst() {
			a, b = b, a
		}
		if b.IsConst() && b.k == 0 {
			return a
		}
		if a == b {
			return c.BV(w, 0)
		}
	case OpShl, OpLShr, OpAShr:
		if b.IsConst() && b.k == 0 {
			return a
		}
		if a.IsConst() && a.k == 0 {
			return a
		}
		if b.IsConst() && b.k >= uint64(w) && op != OpAShr {
			return c.BV(w, 0)
		}
		// shift of zext'd byte etc. handled by solver
	}
	return c.mk(op, w, 0, "", []*Term{a, b})
}

func (c *TermCtx) binInt(op Op, a, b *Term) *Term {
	if a.IsConst() && b.IsConst() {
		x, y := int64(a.k), int64(b.k)
		switch op {
		case OpAdd:
			return c.IntC(x + y)
		case OpSub:
			return c.IntC(x - y)
		case OpMul:
			return c.IntC(x * y)
		case OpIDivT:
			if y != 0 {
				return c.IntC(x / y)
			}
		case OpIRemT:
			if y != 0 {
				return c.IntC(x % y)
			}
		}
	}
	switch op {
	case OpAdd:
		if a.IsConst() && a.k == 0 {
			return b
		}
		if b.IsConst() && b.k == 0 {
			return a
		}
	case OpSub:
		if b.IsConst() && b.k == 0 {
			return a
		}
	case OpMul:
		if b.IsConst() && b.k == 1 {
			return a
		}
		if a.IsConst() && a.k == 1 {
			return b
		}
	}
	return c.mk(op, WInt, 0, "", []*Term{a, b})
}

func (c *TermCtx) Add(a, b *Term) *Term   { return c.bin(OpAdd, a, b) }
func (c *TermCtx) Sub(a, b *Term) *Term   { return c.bin(OpSub, a, b) }
func (c *TermCtx) Mul(a, b *Term) *Term   { return c.bin(OpMul, a, b) }
func (c *TermCtx) BAndV(a, b *Term) *Term { return c.bin(OpAnd, a, b) }
func (c *TermCtx) BOrV(a, b *Term) *Term  { return c.bin(OpOr, a, b) }

func (c *TermCtx) NotBV(a *Term) *Term {
	if a.IsConst() {
		return c.BV(a.w, ^a.k)
	}
	if a.op == OpNot {
		return a.args[0]
	}
	return c.mk(OpNot, a.w, 0, "", []*Term{a})
}

func (c *TermCtx) Neg(a *Term) *Term {
	if a.w == WInt {
		return c.binInt(OpSub, c.IntC(0), a)
	}
	if a.IsConst() {
		return c.BV(a.w, -a.k)
	}
	return c.mk(OpNeg, a.w, 0, "", []*Term{a})
}

func (c *TermCtx) Extract(a *Term, hi, lo int) *Term {
	w := hi - lo + 1
	if lo == 0 && w == a.w {
		return a
	}
	if a.IsConst() {
		return c.BV(w, a.k>>uint(lo))
	}
	switch a.op {
	case OpZExt:
		inner := a.args[0]
		if hi < inner.w {
			return c.Extract(inner, hi, lo)
		}
		if lo >= inner.w {
			return c.BV(w, 0)
		}
	case OpSExt:
		inner := a.args[0]
		if hi < inner.w {
			return c.Extract(inner, hi, lo)
		}
	case OpConcat:
		hiT, loT := a.args[0], a.args[1]
		if hi < loT.w {
			return c.Extract(loT, hi, lo)
		}
		if lo >= loT.w {
			return c.Extract(hiT, hi-loT.w, lo-loT.w)
		}
	case OpExtract:
		ilo := int(a.k & 0xffff)
		return c.Extract(a.args[0], hi+ilo, lo+ilo)
	case OpLShr:
		// extract of (x >> k) with constant k, staying inside x
		if a.args[1].IsConst() {
			k := int(a.args[1].k)
			if hi+k < a.w {
				return c.Extract(a.args[0], hi+k, lo+k)
			}
		}
	case OpOr, OpAnd, OpXor:
		// distribute extraction over bitwise ops when one side folds
		l := c.Extract(a.args[0], hi, lo)
		r := c.Extract(a.args[1], hi, lo)
		if l.IsConst() || r.IsConst() {
			return c.bin(a.op, l, r)
		}
	case OpShl:
		if a.args[1].IsConst() {
			k := int(a.args[1].k)
			if hi < k {
				return c.BV(w, 0)
			}
			if lo >= k {
				return c.Extract(a.args[0], hi-k, lo-k)
			}
		}
	}
	return c.mk(OpExtract, w, uint64(hi)<<16|uint64(lo), "", []*Term{a})
}

func (c *TermCtx) ZExt(a *Term, to int) *Term {
	if to == a.w {
		return a
	}
	if to < a.w {
		return c.Extract(a, to-1, 0)
	}
	if a.IsConst() {
		return c.BV(to, a.k)
	}
	if a.op == OpZExt {
		return c.ZExt(a.args[0], to)
	}
	return c.mk(OpZExt, to, uint64(to-a.w), "", []*Term{a})
}

func (c *TermCtx) SExt(a *Term, to int) *Term {
	if to == a.w {
		return a
	}
	if to < a.w {
		return c.Extract(a, to-1, 0)
	}
	if a.IsConst() {
		return c.BV(to, uint64(sext64(a.k, a.w)))
	}
	return c.mk(OpSExt, to, uint64(to-a.w), "", []*Term{a})
}

func (c *TermCtx) Concat(hi, lo *Term) *Term {
	if hi.IsConst() && lo.IsConst() && hi.w+lo.w <= 64 {
		return c.BV(hi.w+lo.w, hi.k<<uint(lo.w)|lo.k)
	}
	return c.mk(OpConcat, hi.w+lo.w, 0, "", []*Term{hi, lo})
}

func (c *TermCtx) Ite(cond, a, b *Term) *Term {
	if cond.IsTrue() {
		return a
	}
	if cond.IsFalse() {
		return b
	}
	if a == b {
		return a
	}
	if a.w == WBool {
		if a.IsTrue() && b.IsFalse() {
			return cond
		}
		if a.IsFalse() && b.IsTrue() {
			return c.Not(cond)
		}
	}
	return c.mk(OpIte, a.w, 0, "", []*Term{cond, a, b})
}

func (c *TermCtx) Eq(a, b *Term) *Term {
	if a.w != b.w {
		panic(fmt.Sprintf("eq width mismatch %d vs %d", a.w, b.w))
	}
	if a == b {
		return c.tTrue
	}
	if a.IsConst() && b.IsConst() {
		return c.Bool(a.k == b.k)
	}
	if a.w == WBool {
		if a.IsTrue() {
			return b
		}
		if b.IsTrue() {
			return a
		}
		if a.IsFalse() {
			return c.Not(b)
		}
		if b.IsFalse() {
			return c.Not(a)
		}
	}
	if a.id > b.id {
		a, b = b, a
	}
	return c.mk(OpEq, WBool, 0, "", []*Term{a, b})
}

func (c *TermCtx) cmp(op Op, a, b *Term) *Term {
	if a.w != b.w {
		panic("cmp width mismatch")
	}
	if a.IsConst() && b.IsConst() {
		switch op {
		case OpULt:
			return c.Bool(a.k < b.k)
		case OpULe:
			return c.Bool(a.k <= b.k)
		case OpSLt:
			return c.Bool(a.SVal() < b.SVal())
		case OpSLe:
			return c.Bool(a.SVal() <= b.SVal())
		case OpILt:
			return c.Bool(int64(a.k) < int64(b.k))
		case OpILe:
			return c.Bool(int64(a.k) <= int64(b.k))
		}
	}
	if a == b {
		return c.Bool(op == OpULe || op == OpSLe || op == OpILe)
	}
	if op == OpULt && b.IsConst() && b.k == 0 {
		return c.tFalse
	}
	if op == OpULe && a.IsConst() && a.k == 0 {
		return c.tTrue
	}
	return c.mk(op, WBool, 0, "", []*Term{a, b})
}

// Lt/Le with signedness; dispatches on sort.
func (c *TermCtx) Lt(a, b *Term, signed bool) *Term {
	if a.w == WInt {
		return c.cmp(OpILt, a, b)
	}
	if signed {
		return c.cmp(OpSLt, a, b)
	}
	return c.cmp(OpULt, a, b)
}
func (c *TermCtx) Le(a, b *Term, signed bool) *Term {
	if a.w == WInt {
		return c.cmp(OpILe, a, b)
	}
	if signed {
		return c.cmp(OpSLe, a, b)
	}
	return c.cmp(OpULe, a, b)
}

func (c *TermCtx) Not(a *Term) *Term {
	if a.IsConst() {
		return c.Bool(a.k == 0)
	}
	if a.op == OpBNot {
		return a.args[0]
	}
	return c.mk(OpBNot, WBool, 0, "", []*Term{a})
}

func (c *TermCtx) And(a, b *Term) *Term {
	if a.IsFalse() || b.IsFalse() {
		return c.tFalse
	}
	if a.IsTrue() {
		return b
	}
	if b.IsTrue() {
		return a
	}
	if a == b {
		return a
	}
	return c.mk(OpBAnd, WBool, 0, "", []*Term{a, b})
}

func (c *TermCtx) Or(a, b *Term) *Term {
	if a.IsTrue() || b.IsTrue() {
		return c.tTrue
	}
	if a.IsFalse() {
		return b
	}
	if b.IsFalse() {
		return a
	}
	if a == b {
		return a
	}
	return c.mk(OpBOr, WBool, 0, "", []*Term{a, b})
}

func (c *TermCtx) Implies(a, b *Term) *Term { return c.Or(c.Not(a), b) }

// ---------- printing ----------

func opName(op Op) string {
	switch op {
	case OpAdd:
		return "bvadd"
	case OpSub:
		return "bvsub"
	case OpMul:
		return "bvmul"
	case OpUDiv:
		return "bvudiv"
	case OpURem:
		return "bvurem"
	case OpSDiv:
		return "bvsdiv"
	case OpSRem:
		return "bvsrem"
	case OpAnd:
		return "bvand"
	case OpOr:
		return "bvor"
	case OpXor:
		return "bvxor"
	case OpNot:
		return "bvnot"
	case OpNeg:
		return "bvneg"
	case OpShl:
		return "bvshl"
	case OpLShr:
		return "bvlshr"
	case OpAShr:
		return "bvashr"
	case OpConcat:
		return "concat"
	case OpIte:
		return "ite"
	case OpEq:
		return "="
	case OpULt:
		return "bvult"
	case OpULe:
		return "bvule"
	case OpSLt:
		return "bvslt"
	case OpSLe:
		return "bvsle"
	case OpBAnd:
		return "and"
	case OpBOr:
		return "or"
	case OpBNot:
		return "not"
	case OpILt:
		return "<"
	case OpILe:
		return "<="
	}
	return "?"
}

func intOpName(op Op) string {
	switch op {
	case OpAdd:
		return "+"
	case OpSub:
		return "-"
	case OpMul:
		return "*"
	}
	return opName(op)
}

func constStr(t *Term) string {
	switch {
	case t.w == WBool:
		if t.k == 1 {
			return "true"
		}
		return "false"
	case t.w == WInt:
		v := int64(t.k)
		if v < 0 {
			// careful with MinInt64
			return fmt.Sprintf("(- %d)", uint64(-(v+1))+1)
		}
		return fmt.Sprintf("%d", v)
	case t.w%4 == 0:
		return fmt.Sprintf("#x%0*x", t.w/4, t.k)
	default:
		return fmt.Sprintf("#b%0*b", t.w, t.k)
	}
}

// ref returns the SMT-LIB reference of t given that definitions of shared
// subterms have been emitted as t<ID>.
func (t *Term) ref() string {
	switch t.op {
	case OpConst:
		return constStr(t)
	case OpVar:
		return t.name
	}
	return fmt.Sprintf("t%d", t.id)
}

func (t *Term) body() string {
	var sb strings.Builder
	switch t.op {
	case OpExtract:
		fmt.Fprintf(&sb, "((_ extract %d %d) %s)", t.k>>16, t.k&0xffff, t.args[0].ref())
	case OpZExt:
		fmt.Fprintf(&sb, "((_ zero_extend %d) %s)", t.k, t.args[0].ref())
	case OpSExt:
		fmt.Fprintf(&sb, "((_ sign_extend %d) %s)", t.k, t.args[0].ref())
	case OpApp:
		if len(t.args) == 0 {
			sb.WriteString(t.name)
			break
		}
		sb.WriteString("(" + t.name)
		for _, a := range t.args {
			sb.WriteString(" " + a.ref())
		}
		sb.WriteString(")")
	case OpIDivT:
		// Go truncated division on Int: sign(a)*sign(b) * (|a| div |b|)
		a, b := t.args[0].ref(), t.args[1].ref()
		fmt.Fprintf(&sb, "(ite (>= %s 0) (ite (> %s 0) (div %s %s) (- (div %s (- %s)))) (ite (> %s 0) (- (div (- %s) %s)) (div (- %s) (- %s))))",
			a, b, a, b, a, b, b, a, b, a, b)
	case OpIRemT:
		a, b := t.args[0].ref(), t.args[1].ref()
		// a - b*trunc(a/b) ; sign follows a
		fmt.Fprintf(&sb, "(ite (>= %s 0) (mod %s %s) (- (mod (- %s) %s)))", a, a, b, a, b)
	default:
		name := opName(t.op)
		if t.w == WInt || (len(t.args) > 0 && t.args[0].w == WInt) {
			name = intOpName(t.op)
		}
		sb.WriteString("(" + name)
		for _, a := range t.args {
			sb.WriteString(" " + a.ref())
		}
		sb.WriteString(")")
	}
	return sb.String()
}

// popcount helper used by stubs
func popcount(x uint64) int { return bits.OnesCount64(x) }
