package main

import (
	"fmt"
	"go/types"
	"sort"
	"strconv"
	"strings"

	"golang.org/x/tools/go/ssa"
)

type intrinsic func(in *Interp, fr *frame, args []Value) Value

var intrinsics = map[string]intrinsic{}
var nativeMethods = map[string]intrinsic{}
var harnessIntrinsics = map[string]intrinsic{}

func init() {
	for k, v := range map[string]intrinsic{
		"verif_nondet_bool": func(in *Interp, fr *frame, a []Value) Value { return in.nondet("bool", WBool) },
		"verif_nondet_u8":   func(in *Interp, fr *frame, a []Value) Value { return in.nondet("u8", 8) },
		"verif_nondet_u16":  func(in *Interp, fr *frame, a []Value) Value { return in.nondet("u16", 16) },
		"verif_nondet_u32":  func(in *Interp, fr *frame, a []Value) Value { return in.nondet("u32", 32) },
		"verif_nondet_u64":  func(in *Interp, fr *frame, a []Value) Value { return in.nondet("u64", 64) },
		"verif_nondet_i64": func(in *Interp, fr *frame, a []Value) Value {
			if in.intMode {
				return in.nondet("i64", WInt)
			}
			return in.nondet("i64", 64)
		},
		"verif_nondet_int": func(in *Interp, fr *frame, a []Value) Value {
			if in.intMode {
				return in.nondet("int", WInt)
			}
			return in.nondet("int", 64)
		},
		"verif_nondet_bytes": func(in *Interp, fr *frame, a []Value) Value {
			n := int(in.concInt(a[0].(*Term), "nondet_bytes length"))
			arr := make([]Value, n)
			for i := range arr {
				arr[i] = in.nondet("u8", 8)
			}
			return SliceV{a: arr, n: n, c: n}
		},
		"verif_nondet_string": func(in *Interp, fr *frame, a []Value) Value {
			n := int(in.concInt(a[0].(*Term), "nondet_string length"))
			b := make([]*Term, n)
			for i := range b {
				b[i] = in.nondet("u8", 8)
			}
			return &StrV{b: b}
		},
		"verif_assume": func(in *Interp, fr *frame, a []Value) Value {
			in.assume(a[0].(*Term))
			return nil
		},
		"verif_assert": func(in *Interp, fr *frame, a []Value) Value {
			msg, _ := a[1].(*StrV).Concrete()
			pos := ""
			if fr != nil {
				pos = in.callerPos(fr)
			}
			in.doAssert(a[0].(*Term), msg, pos)
			return nil
		},
		"verif_reach": func(in *Interp, fr *frame, a []Value) Value {
			msg, _ := a[0].(*StrV).Concrete()
			in.run.reached[msg] = true
			return nil
		},
		"verif_choose": func(in *Interp, fr *frame, a []Value) Value {
			n := int(in.concInt(a[0].(*Term), "choose"))
			return in.tc.BV(64, uint64(in.choose(n)))
		},
		"verif_yield": func(in *Interp, fr *frame, a []Value) Value { in.yield(); return nil },
		"verif_drain": func(in *Interp, fr *frame, a []Value) Value { in.drain(); return nil },
		"verif_log": func(in *Interp, fr *frame, a []Value) Value {
			tag, _ := a[0].(*StrV).Concrete()
			var vals []Value
			if len(a) > 1 {
				if s, ok := a[1].(SliceV); ok {
					for i := 0; i < s.n; i++ {
						vals = append(vals, s.a[s.off+i])
					}
				}
			}
			in.run.logs = append(in.run.logs, logEntry{tag, vals})
			return nil
		},
		"verif_guarded": func(in *Interp, fr *frame, a []Value) Value {
			unwrap := func(v Value) *Value {
				if i, ok := v.(Iface); ok {
					v = i.v
				}
				return v.(*Value)
			}
			in.guarded[unwrap(a[0])] = unwrap(a[1])
			return nil
		},
		"verif_concrete": func(in *Interp, fr *frame, a []Value) Value {
			// concretise an integer (forks over feasible values)
			t := a[0].(*Term)
			v := in.concretize(t, "verif_concrete", in.cfg.ConcLimit)
			return in.constLike(t, v)
		},
		"verif_alloc_limit": func(in *Interp, fr *frame, a []Value) Value {
			in.allocLimit = in.concInt(a[0].(*Term), "alloc_limit")
			return nil
		},
		"verif_sched_explore": func(in *Interp, fr *frame, a []Value) Value {
			// lets a harness set a component up deterministically before the explored part begins
			on := a[0].(*Term)
			if !on.IsConst() {
				in.unsupported("verif_sched_explore needs a constant")
			}
			in.schedOff = on.k == 0
			return nil
		},
		"verif_havoc": func(in *Interp, fr *frame, a []Value) Value {
			// every scalar reachable in *p (through structs and arrays) gets an arbitrary value
			ifc, _ := a[0].(Iface)
			ptr, ok := ifc.v.(*Value)
			if !ok || ptr == nil {
				in.unsupported("verif_havoc needs a non-nil pointer")
			}
			var walk func(v Value) Value
			walk = func(v Value) Value {
				switch x := v.(type) {
				case *Term:
					if x.w == WBool {
						return in.nondet("bool", WBool)
					}
					return in.nondet("havoc", x.w)
				case Struct:
					out := make(Struct, len(x))
					for i := range x {
						out[i] = walk(x[i])
					}
					return out
				case Array:
					out := make(Array, len(x))
					for i := range x {
						out[i] = walk(x[i])
					}
					return out
				}
				return v
			}
			*ptr = walk(*ptr)
			return nil
		},
		"verif_taint_free": func(in *Interp, fr *frame, a []Value) Value {
			// true iff no term in data mentions a variable occurring in secret (syntactic non-interference)
			secretVars := map[*Term]bool{}
			var collect func(t *Term, into map[*Term]bool, seen map[*Term]bool)
			collect = func(t *Term, into map[*Term]bool, seen map[*Term]bool) {
				if seen[t] {
					return
				}
				seen[t] = true
				if t.op == OpVar {
					into[t] = true
				}
				for _, x := range t.args {
					collect(x, into, seen)
				}
			}
			seen := map[*Term]bool{}
			for _, t := range in.flattenTerms(a[1]) {
				collect(t, secretVars, seen)
			}
			seen2 := map[*Term]bool{}
			for _, t := range in.flattenTerms(a[0]) {
				used := map[*Term]bool{}
				collect(t, used, seen2)
				for v := range used {
					if secretVars[v] {
						return in.tc.tFalse
					}
				}
			}
			return in.tc.tTrue
		},
		"verif_native":      func(in *Interp, fr *frame, a []Value) Value { return in.tc.tFalse },
		"verif_is_symbolic": func(in *Interp, fr *frame, a []Value) Value { return in.tc.tTrue },
		"verif_timers": func(in *Interp, fr *frame, a []Value) Value {
			n := 0
			for _, t := range in.timers {
				if !t.stopped && (!t.fired || t.ticker) {
					n++
				}
			}
			return in.tc.BV(64, uint64(n))
		},
		"verif_timer_dur": func(in *Interp, fr *frame, a []Value) Value {
			// duration of the k-th pending timer
			k := int(in.concInt(a[0].(*Term), "timer_dur"))
			n := 0
			for _, t := range in.timers {
				if !t.stopped && (!t.fired || t.ticker) {
					if n == k {
						return t.dur
					}
					n++
				}
			}
			return in.i64c(-1)
		},
		"verif_fire_timer": func(in *Interp, fr *frame, a []Value) Value {
			k := int(in.concInt(a[0].(*Term), "fire_timer"))
			n := 0
			for _, t := range in.timers {
				if !t.stopped && (!t.fired || t.ticker) {
					if n == k {
						in.fireTimer(t)
						return in.tc.tTrue
					}
					n++
				}
			}
			return in.tc.tFalse
		},
		"verif_uf_u64": func(in *Interp, fr *frame, a []Value) Value {
			// uninterpreted function name(args...) -> u64
			name, _ := a[0].(*StrV).Concrete()
			var ts []*Term
			if s, ok := a[1].(SliceV); ok {
				for i := 0; i < s.n; i++ {
					ts = append(ts, in.flattenTerms(s.a[s.off+i])...)
				}
			}
			return in.tc.App("uf_"+name, 64, ts...)
		},
		"verif_uf_bool": func(in *Interp, fr *frame, a []Value) Value {
			name, _ := a[0].(*StrV).Concrete()
			var ts []*Term
			if s, ok := a[1].(SliceV); ok {
				for i := 0; i < s.n; i++ {
					ts = append(ts, in.flattenTerms(s.a[s.off+i])...)
				}
			}
			return in.tc.App("ufb_"+name, WBool, ts...)
		},
		"verif_set_now": func(in *Interp, fr *frame, a []Value) Value {
			in.nowOverride = a[0].(*Term)
			return nil
		},
	} {
		harnessIntrinsics[k] = v
	}
	registerSync()
	registerTime()
	registerMisc()
}

// flattenTerms lists the scalar terms inside a value (for UF arguments).
func (in *Interp) flattenTerms(v Value) []*Term {
	switch v := v.(type) {
	case *Term:
		return []*Term{v}
	case Iface:
		return in.flattenTerms(v.v)
	case *StrV:
		if v.op != nil {
			in.unsupported("opaque string as UF argument")
		}
		return append([]*Term{}, v.b...)
	case Struct:
		var r []*Term
		for _, f := range v {
			r = append(r, in.flattenTerms(f)...)
		}
		return r
	case Array:
		var r []*Term
		for _, f := range v {
			r = append(r, in.flattenTerms(f)...)
		}
		return r
	case SliceV:
		var r []*Term
		for i := 0; i < v.n; i++ {
			r = append(r, in.flattenTerms(v.a[v.off+i])...)
		}
		return r
	case nil:
		return nil
	}
	in.unsupported("flattenTerms of %T", v)
	return nil
}

func (in *Interp) callerPos(fr *frame) string {
	// position of the call to the intrinsic: fr is the harness frame
	return fr.fn.String()
}

func (in *Interp) nondet(kind string, w int) *Term {
	seq := len(in.run.nondets)
	t := in.tc.Var(fmt.Sprintf("nd%d_%s", seq, kind), w)
	in.run.nondets = append(in.run.nondets, nondetVar{t: t, kind: kind})
	if w == WInt {
		// machine integers: the Int-sorted variable ranges over int64
		in.sol.Assert(in.tc.And(in.tc.Le(in.tc.IntC(-1<<63), t, true), in.tc.Le(t, in.tc.IntC(1<<63-1), true)))
	}
	return t
}

func (in *Interp) assume(c *Term) {
	c = in.simp(c)
	defer func() {
		if r := recover(); r != nil {
			panic(r)
		}
		in.learnFromCond(c, true)
	}()
	if c.IsTrue() {
		return
	}
	if c.IsFalse() {
		panic(pathEnd{"infeasible", "assume(false)"})
	}
	r := in.run
	k := len(r.trace)
	// assumes are recorded as forced decisions so that replays skip the check
	if k < len(r.prefix) {
		d := r.prefix[k]
		r.trace = append(r.trace, d)
		if d.C == 0 {
			panic(pathEnd{"infeasible", "assume infeasible"})
		}
		in.sol.Assert(c)
		return
	}
	res := in.sol.Check(c, false)
	if res == Unknown {
		panic(pathEnd{"unknown", "solver unknown on assume"})
	}
	if res == Unsat {
		r.trace = append(r.trace, Dec{C: 0, Forced: true, Kind: 'a'})
		panic(pathEnd{"infeasible", "assume infeasible"})
	}
	r.trace = append(r.trace, Dec{C: 1, Forced: true, Kind: 'a'})
	in.sol.Assert(c)
}

// doAssert checks that c holds on the current path; a counter-model is recorded
// as a violation. The path continues under c.
func (in *Interp) doAssert(c *Term, msg, pos string) {
	in.run.asserts++
	if c.IsTrue() {
		return
	}
	r := in.run
	k := len(r.trace)
	if k < len(r.prefix) {
		// already examined on the path that spawned this prefix
		d := r.prefix[k]
		r.trace = append(r.trace, d)
		if d.C == 0 {
			panic(pathEnd{"infeasible", "assert: no continuation"})
		}
		if !c.IsFalse() {
			in.sol.Assert(c)
		}
		return
	}
	nc := in.tc.Not(c)
	res := in.sol.Check(nc, true)
	switch res {
	case Unknown:
		panic(pathEnd{"unknown", "solver unknown on assertion: " + msg})
	case Sat:
		in.recordViolationModel(msg, "assert", pos)
		in.sol.EndCheck()
	}
	// continue under c if possible
	if c.IsFalse() {
		r.trace = append(r.trace, Dec{C: 0, Forced: true, Kind: 'A'})
		panic(pathEnd{"infeasible", "assert(false): path ends"})
	}
	if res == Sat {
		res2 := in.sol.Check(c, false)
		if res2 != Sat {
			r.trace = append(r.trace, Dec{C: 0, Forced: true, Kind: 'A'})
			panic(pathEnd{"infeasible", "assertion never holds on this path"})
		}
	}
	r.trace = append(r.trace, Dec{C: 1, Forced: true, Kind: 'A'})
	in.sol.Assert(c)
}

// recordViolation: violation found without a pending sat state.
func (in *Interp) recordViolation(msg, kind, pos string) {
	res := in.sol.Check(nil, true)
	if res != Sat {
		return
	}
	in.recordViolationModel(msg, kind, pos)
	in.sol.EndCheck()
}

func (in *Interp) recordViolationModel(msg, kind, pos string) {
	r := in.run
	for _, v := range r.viols {
		if v.Tag == msg && v.Kind == kind {
			v.Count++
			return
		}
	}
	v := &Violation{Harness: in.harness, Tag: msg, Kind: kind, Pos: pos, Count: 1}
	ts := make([]*Term, len(r.nondets))
	for i, nd := range r.nondets {
		ts[i] = nd.t
	}
	vals := in.sol.GetValues(ts)
	for i, nd := range r.nondets {
		v.Nondet = append(v.Nondet, NondetVal{Seq: i, Kind: nd.kind, W: nd.t.w, Val: vals[i]})
	}
	for _, le := range r.logs {
		var sb strings.Builder
		sb.WriteString(le.tag + ":")
		for _, lv := range le.vals {
			sb.WriteString(" " + in.modelString(lv))
		}
		v.Log = append(v.Log, sb.String())
	}
	v.Trace = append([]Dec{}, r.trace...)
	r.viols = append(r.viols, v)
}

// modelString renders a value under the current model.
func (in *Interp) modelString(v Value) string {
	switch v := v.(type) {
	case *Term:
		val := in.sol.GetValues([]*Term{v})[0]
		if v.w == WBool {
			return strconv.FormatBool(val != 0)
		}
		if v.w == WInt {
			return strconv.FormatInt(int64(val), 10)
		}
		return fmt.Sprintf("%d(0x%x)", val, val)
	case Iface:
		if v.t == nil {
			return "nil"
		}
		return in.modelString(v.v)
	case *StrV:
		if v.op != nil {
			return "<opaque:" + v.op.kind + ">"
		}
		vals := in.sol.GetValues(v.b)
		bs := make([]byte, len(vals))
		for i, x := range vals {
			bs[i] = byte(x)
		}
		return strconv.Quote(string(bs))
	case SliceV:
		var parts []string
		for i := 0; i < v.n; i++ {
			parts = append(parts, in.modelString(v.a[v.off+i]))
		}
		return "[" + strings.Join(parts, " ") + "]"
	case Array:
		var parts []string
		for _, e := range v {
			parts = append(parts, in.modelString(e))
		}
		return "[" + strings.Join(parts, " ") + "]"
	case Struct:
		var parts []string
		for _, e := range v {
			parts = append(parts, in.modelString(e))
		}
		return "{" + strings.Join(parts, " ") + "}"
	case FloatV:
		return fmt.Sprint(v.f)
	case *Native:
		if e, ok := v.v.(*errObj); ok {
			return "error(" + in.modelString(e.msg) + ")"
		}
		return "<" + v.kind + ">"
	case nil:
		return "nil"
	}
	return fmt.Sprintf("<%T>", v)
}

// ---------- pattern-based intrinsics ----------

func noop(in *Interp, fr *frame, args []Value) Value { return nil }

func (in *Interp) zeroResults(fn *ssa.Function) Value {
	res := fn.Signature.Results()
	switch res.Len() {
	case 0:
		return nil
	case 1:
		return in.zero(res.At(0).Type())
	}
	return in.zero(res)
}

func (in *Interp) patternIntrinsic(fn *ssa.Function, name string) intrinsic {
	pkg := ""
	if fn.Pkg != nil {
		pkg = fn.Pkg.Pkg.Path()
	} else if recv := fn.Signature.Recv(); recv != nil {
		// instantiated / wrapper methods: derive package from receiver type
		t := recv.Type()
		if p, ok := t.(*types.Pointer); ok {
			t = p.Elem()
		}
		if n, ok := t.(*types.Named); ok && n.Obj().Pkg() != nil {
			pkg = n.Obj().Pkg().Path()
		}
	}
	switch pkg {
	case "log/slog", "log":
		return func(in *Interp, fr *frame, args []Value) Value { return in.zeroResults(fn) }
	}
	if in.cfg.ModulePath != "" && pkg == in.cfg.ModulePath+"/internal/logging" {
		return func(in *Interp, fr *frame, args []Value) Value { return in.zeroResults(fn) }
	}
	if in.cfg.ModulePath != "" && pkg == in.cfg.ModulePath+"/internal/recovery" {
		return func(in *Interp, fr *frame, args []Value) Value { return in.zeroResults(fn) }
	}
	if strings.HasPrefix(name, "(*sync/atomic.Pointer[") || strings.HasPrefix(name, "(*sync/atomic.Value)") {
		m := fn.Name()
		return func(in *Interp, fr *frame, args []Value) Value { return in.atomicBox(fn, m, args) }
	}
	return nil
}

func (in *Interp) atomicBox(fn *ssa.Function, m string, args []Value) Value {
	p := args[0].(*Value)
	resT := fn.Signature.Results()
	zeroRes := func() Value {
		if resT.Len() == 0 {
			return nil
		}
		return in.zero(resT.At(0).Type())
	}
	switch m {
	case "Load":
		if v, ok := in.side[p]; ok {
			return v
		}
		return zeroRes()
	case "Store":
		in.side[p] = args[1]
		return nil
	case "Swap":
		old, ok := in.side[p]
		if !ok {
			old = zeroRes()
		}
		in.side[p] = args[1]
		return old
	case "CompareAndSwap":
		old, ok := in.side[p]
		if !ok {
			old = in.zero(fn.Signature.Params().At(0).Type())
		}
		if in.branch(in.eq(nil, old, args[1])) {
			in.side[p] = args[2]
			return in.tc.tTrue
		}
		return in.tc.tFalse
	}
	in.unsupported("atomic box method %s", m)
	return nil
}

// ---------- sync ----------

func registerSync() {
	intrinsics["(*sync.Mutex).Lock"] = func(in *Interp, fr *frame, a []Value) Value { in.mutexLock(a[0].(*Value)); return nil }
	intrinsics["(*sync.Mutex).Unlock"] = func(in *Interp, fr *frame, a []Value) Value { in.mutexUnlock(a[0].(*Value)); return nil }
	intrinsics["(*sync.Mutex).TryLock"] = func(in *Interp, fr *frame, a []Value) Value {
		l := in.lockOf(a[0].(*Value))
		if l.locked || l.readers > 0 {
			return in.tc.tFalse
		}
		in.mutexLock(a[0].(*Value))
		return in.tc.tTrue
	}
	intrinsics["(*sync.RWMutex).Lock"] = intrinsics["(*sync.Mutex).Lock"]
	intrinsics["(*sync.RWMutex).Unlock"] = intrinsics["(*sync.Mutex).Unlock"]
	intrinsics["(*sync.RWMutex).RLock"] = func(in *Interp, fr *frame, a []Value) Value { in.rLock(a[0].(*Value)); return nil }
	intrinsics["(*sync.RWMutex).RUnlock"] = func(in *Interp, fr *frame, a []Value) Value { in.rUnlock(a[0].(*Value)); return nil }
	intrinsics["(*sync.Once).Do"] = func(in *Interp, fr *frame, a []Value) Value {
		p := a[0].(*Value)
		if in.onces[p] {
			return nil
		}
		in.onces[p] = true
		in.call(fr, 0, a[1], nil)
		return nil
	}
	intrinsics["(*sync.WaitGroup).Add"] = func(in *Interp, fr *frame, a []Value) Value {
		p := a[0].(*Value)
		cur := in.wgs[p]
		if cur == nil {
			cur = in.tc.BV(64, 0)
		}
		d := a[1].(*Term)
		if d.w == WInt {
			in.unsupported("int-mode waitgroup")
		}
		in.wgs[p] = in.tc.Add(cur, d)
		return nil
	}
	intrinsics["(*sync.WaitGroup).Done"] = func(in *Interp, fr *frame, a []Value) Value {
		p := a[0].(*Value)
		cur := in.wgs[p]
		if cur == nil {
			cur = in.tc.BV(64, 0)
		}
		in.wgs[p] = in.tc.Sub(cur, in.tc.BV(64, 1))
		if in.wgs[p].IsConst() && in.wgs[p].SVal() < 0 {
			panic(targetPanic{in.newError("sync: negative WaitGroup counter")})
		}
		return nil
	}
	intrinsics["(*sync.WaitGroup).Wait"] = func(in *Interp, fr *frame, a []Value) Value {
		p := a[0].(*Value)
		in.block(func() bool {
			cur := in.wgs[p]
			return cur == nil || (cur.IsConst() && cur.k == 0)
		}, "WaitGroup.Wait")
		return nil
	}
	intrinsics["(*sync.WaitGroup).Go"] = func(in *Interp, fr *frame, a []Value) Value {
		in.unsupported("WaitGroup.Go")
		return nil
	}
	// sync.Map via association list in side table
	intrinsics["(*sync.Map).Load"] = func(in *Interp, fr *frame, a []Value) Value {
		m := in.syncMap(a[0].(*Value))
		p := in.mapFind(m, a[1])
		if p < 0 {
			return Tuple{Iface{}, in.tc.tFalse}
		}
		return Tuple{m.ents[p].v, in.tc.tTrue}
	}
	intrinsics["(*sync.Map).Store"] = func(in *Interp, fr *frame, a []Value) Value {
		in.mapUpdate(in.syncMap(a[0].(*Value)), a[1], a[2])
		return nil
	}
	intrinsics["(*sync.Map).Delete"] = func(in *Interp, fr *frame, a []Value) Value {
		in.mapDelete(in.syncMap(a[0].(*Value)), a[1])
		return nil
	}
	intrinsics["(*sync.Map).LoadOrStore"] = func(in *Interp, fr *frame, a []Value) Value {
		m := in.syncMap(a[0].(*Value))
		p := in.mapFind(m, a[1])
		if p >= 0 {
			return Tuple{m.ents[p].v, in.tc.tTrue}
		}
		in.mapUpdate(m, a[1], a[2])
		return Tuple{a[2], in.tc.tFalse}
	}
	intrinsics["(*sync.Map).LoadAndDelete"] = func(in *Interp, fr *frame, a []Value) Value {
		m := in.syncMap(a[0].(*Value))
		p := in.mapFind(m, a[1])
		if p < 0 {
			return Tuple{Iface{}, in.tc.tFalse}
		}
		v := m.ents[p].v
		in.mapDelete(m, a[1])
		return Tuple{v, in.tc.tTrue}
	}
	intrinsics["(*sync.Map).Range"] = func(in *Interp, fr *frame, a []Value) Value {
		m := in.syncMap(a[0].(*Value))
		snap := append([]*mapEntry{}, m.ents...)
		for _, e := range snap {
			r := in.call(fr, 0, a[1], []Value{e.k, e.v}).(*Term)
			if !in.branch(r) {
				break
			}
		}
		return nil
	}
	intrinsics["(*sync.Pool).Get"] = func(in *Interp, fr *frame, a []Value) Value {
		p := a[0].(*Value)
		// field "New" is the last field of sync.Pool
		st := (*p).(Struct)
		nf := st[len(st)-1]
		if f, ok := nf.(*ssa.Function); ok && f == nil {
			return Iface{}
		}
		if nf == nil {
			return Iface{}
		}
		return in.call(fr, 0, nf, nil)
	}
	intrinsics["(*sync.Pool).Put"] = noop
	intrinsics["(*sync.Cond).Broadcast"] = noop
	intrinsics["(*sync.Cond).Signal"] = noop

	// atomics on plain words
	for _, ty := range []string{"Int32", "Int64", "Uint32", "Uint64", "Uintptr"} {
		ty := ty
		intrinsics["sync/atomic.Load"+ty] = func(in *Interp, fr *frame, a []Value) Value { in.preempt(); return in.load(a[0]) }
		intrinsics["sync/atomic.Store"+ty] = func(in *Interp, fr *frame, a []Value) Value { in.preempt(); in.store(a[0], a[1]); return nil }
		intrinsics["sync/atomic.Add"+ty] = func(in *Interp, fr *frame, a []Value) Value {
			in.preempt()
			v := in.tc.Add(in.load(a[0]).(*Term), a[1].(*Term))
			in.store(a[0], v)
			return v
		}
		intrinsics["sync/atomic.Swap"+ty] = func(in *Interp, fr *frame, a []Value) Value {
			in.preempt()
			old := in.load(a[0])
			in.store(a[0], a[1])
			return old
		}
		intrinsics["sync/atomic.CompareAndSwap"+ty] = func(in *Interp, fr *frame, a []Value) Value {
			in.preempt()
			old := in.load(a[0]).(*Term)
			if in.branch(in.tc.Eq(old, a[1].(*Term))) {
				in.store(a[0], a[2])
				return in.tc.tTrue
			}
			return in.tc.tFalse
		}
		intrinsics["sync/atomic.And"+ty] = func(in *Interp, fr *frame, a []Value) Value {
			old := in.load(a[0]).(*Term)
			in.store(a[0], in.tc.bin(OpAnd, old, a[1].(*Term)))
			return old
		}
		intrinsics["sync/atomic.Or"+ty] = func(in *Interp, fr *frame, a []Value) Value {
			old := in.load(a[0]).(*Term)
			in.store(a[0], in.tc.bin(OpOr, old, a[1].(*Term)))
			return old
		}
	}
}

func (in *Interp) syncMap(p *Value) *MapV {
	if v, ok := in.side[p]; ok {
		return v.(*MapV)
	}
	m := &MapV{index: map[string]int{}}
	in.side[p] = m
	return m
}

// ---------- misc stdlib ----------

func (in *Interp) concreteStr(v Value, what string) string {
	s, ok := v.(*StrV).Concrete()
	if !ok {
		in.unsupported("%s needs a concrete string", what)
	}
	return s
}

func registerMisc() {
	intrinsics["errors.New"] = func(in *Interp, fr *frame, a []Value) Value {
		return in.newErrorV(a[0].(*StrV))
	}
	intrinsics["errors.Is"] = func(in *Interp, fr *frame, a []Value) Value {
		return in.tc.Bool(in.errorsIs(fr, a[0], a[1], 0))
	}
	intrinsics["errors.Unwrap"] = func(in *Interp, fr *frame, a []Value) Value {
		e := a[0].(Iface)
		if e.t == nativeErrType {
			return in.errMethod("Unwrap", []Value{e.v})
		}
		return Iface{}
	}
	intrinsics["errors.As"] = func(in *Interp, fr *frame, a []Value) Value {
		return in.tc.Bool(in.errorsAs(fr, a[0], a[1]))
	}
	intrinsics["errors.Join"] = func(in *Interp, fr *frame, a []Value) Value {
		s := a[0].(SliceV)
		var ws []Value
		for i := 0; i < s.n; i++ {
			e := s.a[s.off+i].(Iface)
			if e.t != nil {
				ws = append(ws, e)
			}
		}
		if len(ws) == 0 {
			return Iface{}
		}
		return in.newErrorV(in.mkStr("joined errors"), ws...)
	}
	intrinsics["fmt.Errorf"] = func(in *Interp, fr *frame, a []Value) Value {
		format := in.concreteStr(a[0], "fmt.Errorf format")
		args := sliceElems(a[1])
		var wrapped []Value
		// %w operands
		wi := wrapIndexes(format)
		for _, i := range wi {
			if i < len(args) {
				if e, ok := args[i].(Iface); ok && e.t != nil {
					wrapped = append(wrapped, e)
				}
			}
		}
		msg := in.sprintf(fr, strings.ReplaceAll(format, "%w", "%v"), args)
		return in.newErrorV(msg, wrapped...)
	}
	intrinsics["fmt.Sprintf"] = func(in *Interp, fr *frame, a []Value) Value {
		format := in.concreteStr(a[0], "fmt.Sprintf format")
		return in.sprintf(fr, format, sliceElems(a[1]))
	}
	intrinsics["fmt.Sprint"] = func(in *Interp, fr *frame, a []Value) Value {
		args := sliceElems(a[0])
		return in.sprintf(fr, strings.Repeat("%v", len(args)), args)
	}
	intrinsics["fmt.Sprintln"] = func(in *Interp, fr *frame, a []Value) Value {
		args := sliceElems(a[0])
		return in.sprintf(fr, strings.TrimSpace(strings.Repeat("%v ", len(args)))+"\n", args)
	}
	for _, n := range []string{"fmt.Printf", "fmt.Println", "fmt.Print", "fmt.Fprintf", "fmt.Fprintln", "fmt.Fprint"} {
		n := n
		intrinsics[n] = func(in *Interp, fr *frame, a []Value) Value {
			return Tuple{in.tc.BV(64, 0), Iface{}}
		}
	}
	intrinsics["strconv.Itoa"] = func(in *Interp, fr *frame, a []Value) Value {
		t := a[0].(*Term)
		if t.IsConst() {
			return in.mkStr(strconv.Itoa(int(t.SVal())))
		}
		return in.opaque("itoa", t)
	}
	intrinsics["strconv.FormatInt"] = func(in *Interp, fr *frame, a []Value) Value {
		t := a[0].(*Term)
		b := a[1].(*Term)
		if t.IsConst() && b.IsConst() {
			return in.mkStr(strconv.FormatInt(t.SVal(), int(b.k)))
		}
		return in.opaque("formatint", t, b)
	}
	intrinsics["strconv.FormatUint"] = func(in *Interp, fr *frame, a []Value) Value {
		t := a[0].(*Term)
		b := a[1].(*Term)
		if t.IsConst() && b.IsConst() {
			return in.mkStr(strconv.FormatUint(t.k, int(b.k)))
		}
		return in.opaque("formatuint", t, b)
	}
	intrinsics["strconv.Atoi"] = func(in *Interp, fr *frame, a []Value) Value {
		s := in.concreteStr(a[0], "strconv.Atoi")
		n, err := strconv.Atoi(s)
		if err != nil {
			return Tuple{in.lenTerm(0), in.newError(err.Error())}
		}
		return Tuple{in.lenTerm(n), Iface{}}
	}
	intrinsics["strconv.Quote"] = func(in *Interp, fr *frame, a []Value) Value {
		if s, ok := a[0].(*StrV).Concrete(); ok {
			return in.mkStr(strconv.Quote(s))
		}
		return in.opaque("quote", a[0])
	}
	// bytealg (assembly) kernels
	intrinsics["internal/bytealg.IndexByte"] = func(in *Interp, fr *frame, a []Value) Value {
		s := a[0].(SliceV)
		ts := make([]*Term, s.n)
		for i := range ts {
			ts[i] = s.a[s.off+i].(*Term)
		}
		return in.indexByte(ts, a[1].(*Term))
	}
	intrinsics["internal/bytealg.IndexByteString"] = func(in *Interp, fr *frame, a []Value) Value {
		s := a[0].(*StrV)
		if s.op != nil {
			in.unsupported("IndexByteString on opaque string")
		}
		return in.indexByte(s.b, a[1].(*Term))
	}
	intrinsics["internal/bytealg.CountString"] = func(in *Interp, fr *frame, a []Value) Value {
		return in.countByte(a[0].(*StrV).b, a[1].(*Term))
	}
	intrinsics["internal/bytealg.Count"] = func(in *Interp, fr *frame, a []Value) Value {
		s := a[0].(SliceV)
		ts := make([]*Term, s.n)
		for i := range ts {
			ts[i] = s.a[s.off+i].(*Term)
		}
		return in.countByte(ts, a[1].(*Term))
	}
	intrinsics["internal/bytealg.Equal"] = func(in *Interp, fr *frame, a []Value) Value {
		return in.bytesEq(a[0].(SliceV), a[1].(SliceV))
	}
	intrinsics["bytes.Equal"] = intrinsics["internal/bytealg.Equal"]
	intrinsics["internal/bytealg.MakeNoZero"] = func(in *Interp, fr *frame, a []Value) Value {
		n := int(in.concInt(a[0].(*Term), "MakeNoZero"))
		arr := make([]Value, n)
		z := in.tc.BV(8, 0)
		for i := range arr {
			arr[i] = z
		}
		return SliceV{a: arr, n: n, c: n}
	}
	intrinsics["internal/bytealg.Compare"] = func(in *Interp, fr *frame, a []Value) Value {
		x, y := in.bytesToStr(a[0].(SliceV)), in.bytesToStr(a[1].(SliceV))
		lt := in.strLess(x, y, false)
		eq := in.strEq(x, y)
		return in.tc.Ite(eq, in.lenTerm(0), in.tc.Ite(lt, in.tc.BV(64, ^uint64(0)), in.tc.BV(64, 1)))
	}
	intrinsics["internal/bytealg.IndexString"] = func(in *Interp, fr *frame, a []Value) Value {
		return in.indexString(a[0].(*StrV), a[1].(*StrV))
	}
	intrinsics["strings.Index"] = intrinsics["internal/bytealg.IndexString"]
	intrinsics["strings.Contains"] = func(in *Interp, fr *frame, a []Value) Value {
		idx := in.indexString(a[0].(*StrV), a[1].(*StrV))
		return in.tc.Not(in.tc.Lt(idx, in.tc.BV(64, 0), true))
	}
	intrinsics["strings.HasPrefix"] = func(in *Interp, fr *frame, a []Value) Value {
		s, p := a[0].(*StrV), a[1].(*StrV)
		if s.op != nil || p.op != nil {
			in.unsupported("HasPrefix on opaque")
		}
		if len(p.b) > len(s.b) {
			return in.tc.tFalse
		}
		return in.strEq(&StrV{b: s.b[:len(p.b)]}, p)
	}
	intrinsics["strings.HasSuffix"] = func(in *Interp, fr *frame, a []Value) Value {
		s, p := a[0].(*StrV), a[1].(*StrV)
		if s.op != nil || p.op != nil {
			in.unsupported("HasSuffix on opaque")
		}
		if len(p.b) > len(s.b) {
			return in.tc.tFalse
		}
		return in.strEq(&StrV{b: s.b[len(s.b)-len(p.b):]}, p)
	}
	intrinsics["strings.ToLower"] = func(in *Interp, fr *frame, a []Value) Value {
		return in.mapASCII(a[0].(*StrV), true)
	}
	intrinsics["strings.ToUpper"] = func(in *Interp, fr *frame, a []Value) Value {
		return in.mapASCII(a[0].(*StrV), false)
	}
	intrinsics["strings.TrimSpace"] = func(in *Interp, fr *frame, a []Value) Value {
		s := a[0].(*StrV)
		if s.op != nil {
			in.unsupported("TrimSpace on opaque string")
		}
		tc := in.tc
		isSpace := func(b *Term) bool {
			if b.IsConst() {
				c := byte(b.k)
				if c >= 0x80 {
					in.unsupported("TrimSpace: non-ASCII byte")
				}
				return c == ' ' || (c >= '\t' && c <= '\r')
			}
			if !in.branch(tc.Lt(b, tc.BV(8, 0x80), false)) {
				in.unsupported("TrimSpace: symbolic non-ASCII byte")
			}
			sp := tc.Or(tc.Eq(b, tc.BV(8, ' ')), tc.And(tc.Le(tc.BV(8, '\t'), b, false), tc.Le(b, tc.BV(8, '\r'), false)))
			return in.branch(sp)
		}
		lo, hi := 0, len(s.b)
		for lo < hi && isSpace(s.b[lo]) {
			lo++
		}
		for hi > lo && isSpace(s.b[hi-1]) {
			hi--
		}
		return &StrV{b: s.b[lo:hi]}
	}
	intrinsics["strings.EqualFold"] = func(in *Interp, fr *frame, a []Value) Value {
		x, y := a[0].(*StrV), a[1].(*StrV)
		return in.strEq(in.mapASCII(x, true), in.mapASCII(y, true))
	}
	intrinsics["(*strings.Builder).String"] = nil // interpreted from source? uses unsafe
	delete(intrinsics, "(*strings.Builder).String")
	intrinsics["(*strings.Builder).String"] = func(in *Interp, fr *frame, a []Value) Value {
		p := a[0].(*Value)
		st := (*p).(Struct)
		buf := st[1].(SliceV)
		b := make([]*Term, buf.n)
		for i := range b {
			b[i] = buf.a[buf.off+i].(*Term)
		}
		return &StrV{b: b}
	}
	intrinsics["(*strings.Builder).copyCheck"] = noop
	intrinsics["(*strings.Builder).grow"] = noop
	intrinsics["(*strings.Builder).Grow"] = noop
	intrinsics["unsafe.String"] = nil
	delete(intrinsics, "unsafe.String")
	intrinsics["math/rand.Float64"] = func(in *Interp, fr *frame, a []Value) Value {
		in.unsupported("symbolic float (rand.Float64)")
		return nil
	}
	intrinsics["math/rand.Intn"] = func(in *Interp, fr *frame, a []Value) Value {
		n := a[0].(*Term)
		v := in.nondet("env_int", n.w)
		in.assume(in.tc.And(in.tc.Le(in.constLike(n, 0), v, true), in.tc.Lt(v, n, true)))
		return v
	}
	intrinsics["math/rand.Uint32"] = func(in *Interp, fr *frame, a []Value) Value { return in.nondet("env_u32", 32) }
	intrinsics["math/rand.Uint64"] = func(in *Interp, fr *frame, a []Value) Value { return in.nondet("env_u64", 64) }
	intrinsics["math/rand.Int63"] = func(in *Interp, fr *frame, a []Value) Value {
		v := in.nondet("env_i64", 64)
		in.assume(in.tc.Le(in.tc.BV(64, 0), v, true))
		return v
	}
	intrinsics["crypto/rand.Read"] = func(in *Interp, fr *frame, a []Value) Value {
		s := a[0].(SliceV)
		for i := 0; i < s.n; i++ {
			s.a[s.off+i] = in.nondet("env_u8", 8)
		}
		return Tuple{in.lenTerm(s.n), Iface{}}
	}
	intrinsics["io.ReadFull"] = nil
	delete(intrinsics, "io.ReadFull")
	intrinsics["sort.Slice"] = func(in *Interp, fr *frame, a []Value) Value {
		in.sortSlice(fr, a[0].(Iface).v.(SliceV), a[1], false)
		return nil
	}
	intrinsics["sort.SliceStable"] = intrinsics["sort.Slice"]
	intrinsics["sort.Strings"] = func(in *Interp, fr *frame, a []Value) Value {
		s := a[0].(SliceV)
		strs := make([]string, s.n)
		for i := range strs {
			strs[i] = in.concreteStr(s.a[s.off+i], "sort.Strings")
		}
		sort.Strings(strs)
		for i := range strs {
			s.a[s.off+i] = in.mkStr(strs[i])
		}
		return nil
	}
	intrinsics["runtime.Gosched"] = func(in *Interp, fr *frame, a []Value) Value { in.yield(); return nil }
	intrinsics["runtime.KeepAlive"] = noop
	intrinsics["runtime.SetFinalizer"] = noop
	intrinsics["runtime.NumGoroutine"] = func(in *Interp, fr *frame, a []Value) Value { return in.lenTerm(1) }
	intrinsics["runtime/debug.Stack"] = func(in *Interp, fr *frame, a []Value) Value { return SliceV{nil: true} }
	intrinsics["os.Getenv"] = func(in *Interp, fr *frame, a []Value) Value { return in.emptyStr }
	intrinsics["os.Getpid"] = func(in *Interp, fr *frame, a []Value) Value { return in.lenTerm(4242) }
}

func sliceElems(v Value) []Value {
	s, ok := v.(SliceV)
	if !ok {
		return nil
	}
	r := make([]Value, s.n)
	for i := range r {
		r[i] = s.a[s.off+i]
	}
	return r
}

func wrapIndexes(format string) []int {
	var res []int
	arg := 0
	for i := 0; i < len(format); i++ {
		if format[i] != '%' {
			continue
		}
		i++
		for i < len(format) && strings.ContainsRune("+-# 0123456789.", rune(format[i])) {
			i++
		}
		if i >= len(format) {
			break
		}
		if format[i] == '%' {
			continue
		}
		if format[i] == 'w' {
			res = append(res, arg)
		}
		arg++
	}
	return res
}

func (in *Interp) opaque(kind string, args ...Value) *StrV {
	in.opaqueID++
	return &StrV{op: &Opaque{kind: kind, args: args, id: in.opaqueID}}
}

// toNative converts a concrete value into a Go value for fmt.
func (in *Interp) toNative(fr *frame, v Value) (interface{}, bool) {
	switch v := v.(type) {
	case Iface:
		if v.t == nil {
			return nil, true
		}
		if v.t == nativeErrType {
			e := v.v.(*Native).v.(*errObj)
			s, ok := e.msg.Concrete()
			if !ok {
				return nil, false
			}
			return fmt.Errorf("%s", s), true
		}
		if v.t == runtimeErrNamed {
			s, ok := v.v.(*StrV).Concrete()
			return s, ok
		}
		// error / Stringer methods
		if !in.hasMethod(v.t, "Error") && !in.hasMethod(v.t, "String") {
			return in.toNativeT(fr, v.v, v.t)
		}
		if m := in.lookupMethodSafe(v.t, "Error"); m != nil && m.Signature.Params().Len() == 0 {
			r := in.callSSA(fr, m, []Value{v.v}, nil)
			s, ok := r.(*StrV).Concrete()
			if !ok {
				return nil, false
			}
			return fmt.Errorf("%s", s), true
		}
		if m := in.lookupMethodSafe(v.t, "String"); m != nil && m.Signature.Params().Len() == 0 && m.Signature.Results().Len() == 1 {
			r := in.callSSA(fr, m, []Value{v.v}, nil)
			if rs, ok := r.(*StrV); ok {
				s, ok := rs.Concrete()
				return s, ok
			}
		}
		return in.toNativeT(fr, v.v, v.t)
	}
	return in.toNativeT(fr, v, nil)
}

func (in *Interp) toNativeT(fr *frame, v Value, t types.Type) (interface{}, bool) {
	switch v := v.(type) {
	case *Term:
		if !v.IsConst() {
			return nil, false
		}
		if v.w == WBool {
			return v.k == 1, true
		}
		if t != nil && !isSigned(t) {
			switch v.w {
			case 8:
				return uint8(v.k), true
			case 16:
				return uint16(v.k), true
			case 32:
				return uint32(v.k), true
			}
			return v.k, true
		}
		return v.SVal(), true
	case *StrV:
		s, ok := v.Concrete()
		return s, ok
	case FloatV:
		return v.f, true
	case SliceV:
		if t != nil {
			if st, ok := t.Underlying().(*types.Slice); ok {
				if b, ok := st.Elem().Underlying().(*types.Basic); ok && b.Kind() == types.Uint8 {
					bs := make([]byte, v.n)
					for i := range bs {
						e := v.a[v.off+i].(*Term)
						if !e.IsConst() {
							return nil, false
						}
						bs[i] = byte(e.k)
					}
					return bs, true
				}
			}
		}
		var out []interface{}
		for i := 0; i < v.n; i++ {
			var et types.Type
			if t != nil {
				if st, ok := t.Underlying().(*types.Slice); ok {
					et = st.Elem()
				}
			}
			x, ok := in.toNativeT(fr, v.a[v.off+i], et)
			if !ok {
				return nil, false
			}
			out = append(out, x)
		}
		return out, true
	case Array:
		bs := make([]byte, len(v))
		for i := range bs {
			e, ok := v[i].(*Term)
			if !ok || !e.IsConst() {
				return nil, false
			}
			bs[i] = byte(e.k)
		}
		return bs, true
	case *Value:
		return fmt.Sprintf("%p", v), true
	case nil:
		return nil, true
	case Struct:
		return "{struct}", true
	}
	return fmt.Sprintf("<%T>", v), true
}

func (in *Interp) sprintf(fr *frame, format string, args []Value) *StrV {
	nat := make([]interface{}, len(args))
	allConc := true
	for i, a := range args {
		x, ok := in.toNative(fr, a)
		if !ok {
			allConc = false
			break
		}
		nat[i] = x
	}
	if allConc {
		return in.mkStr(fmt.Sprintf(format, nat...))
	}
	oargs := make([]Value, 0, len(args)+1)
	oargs = append(oargs, in.mkStr(format))
	for _, a := range args {
		if i, ok := a.(Iface); ok {
			oargs = append(oargs, i.v)
		} else {
			oargs = append(oargs, a)
		}
	}
	return in.opaque("sprintf:"+format, oargs[1:]...)
}

func (in *Interp) errorsIs(fr *frame, err, target Value, depth int) bool {
	e, _ := err.(Iface)
	t, _ := target.(Iface)
	if e.t == nil || t.t == nil {
		return e.t == nil && t.t == nil
	}
	if depth > 20 {
		return false
	}
	if types.Identical(e.t, t.t) {
		if types.Comparable(e.t) || e.t == nativeErrType {
			c := in.eq(e.t, e.v, t.v)
			if in.branch(c) {
				return true
			}
		}
	}
	// Is method
	if e.t != nativeErrType && e.t != runtimeErrNamed {
		if m := in.lookupMethodSafe(e.t, "Is"); m != nil {
			r := in.callSSA(fr, m, []Value{e.v, target}, nil).(*Term)
			if in.branch(r) {
				return true
			}
		}
	}
	// unwrap
	if e.t == nativeErrType {
		for _, w := range e.v.(*Native).v.(*errObj).wrapped {
			if in.errorsIs(fr, w, target, depth+1) {
				return true
			}
		}
		return false
	}
	if e.t == runtimeErrNamed {
		return false
	}
	if m := in.lookupMethodSafe(e.t, "Unwrap"); m != nil {
		r := in.callSSA(fr, m, []Value{e.v}, nil)
		switch r := r.(type) {
		case Iface:
			return in.errorsIs(fr, r, target, depth+1)
		case SliceV:
			for i := 0; i < r.n; i++ {
				if in.errorsIs(fr, r.a[r.off+i], target, depth+1) {
					return true
				}
			}
		}
	}
	return false
}

func (in *Interp) errorsAs(fr *frame, err, target Value) bool {
	e, _ := err.(Iface)
	tp := target.(Iface)
	ptr := tp.v.(*Value)
	tt := mustDeref(tp.t)
	for depth := 0; e.t != nil && depth < 20; depth++ {
		if it, ok := tt.Underlying().(*types.Interface); ok {
			if in.implements(e.t, it) {
				*ptr = e
				return true
			}
		} else if types.Identical(e.t, tt) {
			*ptr = e.v
			return true
		}
		if e.t == nativeErrType {
			ws := e.v.(*Native).v.(*errObj).wrapped
			if len(ws) == 0 {
				return false
			}
			e = ws[0].(Iface)
			continue
		}
		if e.t == runtimeErrNamed {
			return false
		}
		m := in.lookupMethodSafe(e.t, "Unwrap")
		if m == nil {
			return false
		}
		r, ok := in.callSSA(fr, m, []Value{e.v}, nil).(Iface)
		if !ok {
			return false
		}
		e = r
	}
	return false
}

func (in *Interp) indexByte(bs []*Term, c *Term) Value {
	tc := in.tc
	res := tc.BV(64, ^uint64(0))
	for i := len(bs) - 1; i >= 0; i-- {
		res = tc.Ite(tc.Eq(bs[i], c), tc.BV(64, uint64(i)), res)
	}
	return res
}

func (in *Interp) countByte(bs []*Term, c *Term) Value {
	tc := in.tc
	res := tc.BV(64, 0)
	for _, b := range bs {
		res = tc.Add(res, tc.Ite(tc.Eq(b, c), tc.BV(64, 1), tc.BV(64, 0)))
	}
	return res
}

func (in *Interp) bytesToStr(s SliceV) *StrV {
	b := make([]*Term, s.n)
	for i := range b {
		b[i] = s.a[s.off+i].(*Term)
	}
	return &StrV{b: b}
}

func (in *Interp) bytesEq(x, y SliceV) *Term {
	return in.strEq(in.bytesToStr(x), in.bytesToStr(y))
}

func (in *Interp) indexString(s, sub *StrV) *Term {
	tc := in.tc
	if s.op != nil || sub.op != nil {
		in.unsupported("strings.Index on opaque string")
	}
	res := tc.BV(64, ^uint64(0))
	n, m := len(s.b), len(sub.b)
	for i := n - m; i >= 0; i-- {
		match := in.strEq(&StrV{b: s.b[i : i+m]}, sub)
		res = tc.Ite(match, tc.BV(64, uint64(i)), res)
	}
	return res
}

func (in *Interp) mapASCII(s *StrV, lower bool) *StrV {
	tc := in.tc
	if s.op != nil {
		in.unsupported("case mapping of opaque string")
	}
	out := make([]*Term, len(s.b))
	for i, b := range s.b {
		if b.IsConst() {
			c := byte(b.k)
			if c >= 0x80 {
				in.unsupported("case mapping of non-ASCII byte")
			}
			if lower && c >= 'A' && c <= 'Z' {
				c += 32
			} else if !lower && c >= 'a' && c <= 'z' {
				c -= 32
			}
			out[i] = in.byteConst(c)
			continue
		}
		// non-ASCII symbolic bytes are outside the encoding: decided, not assumed
		if !in.branch(tc.Lt(b, tc.BV(8, 0x80), false)) {
			in.unsupported("case mapping of symbolic non-ASCII byte")
		}
		if lower {
			isUp := tc.And(tc.Le(tc.BV(8, 'A'), b, false), tc.Le(b, tc.BV(8, 'Z'), false))
			out[i] = tc.Ite(isUp, tc.Add(b, tc.BV(8, 32)), b)
		} else {
			isLo := tc.And(tc.Le(tc.BV(8, 'a'), b, false), tc.Le(b, tc.BV(8, 'z'), false))
			out[i] = tc.Ite(isLo, tc.Sub(b, tc.BV(8, 32)), b)
		}
	}
	return &StrV{b: out}
}

// sortSlice: insertion sort calling the real less closure.
func (in *Interp) sortSlice(fr *frame, s SliceV, less Value, _ bool) {
	n := s.n
	// perm-based insertion sort using swaps on the real backing store so that
	// less(i, j) observes the current order
	for i := 1; i < n; i++ {
		for j := i; j > 0; j-- {
			r := in.call(fr, 0, less, []Value{in.lenTerm(j), in.lenTerm(j - 1)}).(*Term)
			if !in.branch(r) {
				break
			}
			s.a[s.off+j], s.a[s.off+j-1] = s.a[s.off+j-1], s.a[s.off+j]
		}
	}
}

// nativeMethod dispatches a method call on an engine-native object.
func (in *Interp) nativeMethod(fr *frame, name string, args []Value) Value {
	n, _ := args[0].(*Native)
	if n != nil {
		if h := nativeMethods[n.kind+"."+name]; h != nil {
			return h(in, fr, args)
		}
		in.unsupported("native method %s.%s", n.kind, name)
	}
	in.unsupported("native method %s on nil", name)
	return nil
}

func (in *Interp) hasMethod(t types.Type, name string) bool {
	ms := in.prog.MethodSets.MethodSet(t)
	for i := 0; i < ms.Len(); i++ {
		if ms.At(i).Obj().Name() == name {
			return true
		}
	}
	return false
}

func (in *Interp) lookupMethodSafe(t types.Type, name string) *ssa.Function {
	ms := in.prog.MethodSets.MethodSet(t)
	for i := 0; i < ms.Len(); i++ {
		if ms.At(i).Obj().Name() == name {
			return in.prog.MethodValue(ms.At(i))
		}
	}
	return nil
}
