package main

import (
	"fmt"
	"path"
	"sort"
	"strings"
)

// Model filesystem: concrete path names, symbolic file contents (concrete
// length). Mutating operations are counted as atomic steps; the harness can
// schedule a crash after k steps (verif_fs_crash_after), which aborts the
// running call with a panic the harness recovers from, leaving the files as
// they were at that instant (a crash inside a write leaves a prefix).

type vnode struct {
	kind   byte // 'f' file, 'd' dir, 'l' symlink
	data   []Value
	mode   uint32
	target string
}

type vfsState struct {
	nodes      map[string]*vnode
	steps      int
	crashAfter int // -1: never
	oplog      []string
	failNext   map[string]bool
	access     []vaccess
}

type vfile struct {
	path   string
	node   *vnode
	pos    int
	closed bool
	write  bool
	append bool
}

type crashSignal struct{}

func (in *Interp) vfs() *vfsState {
	if in.fs == nil {
		in.fs = &vfsState{nodes: map[string]*vnode{"/": {kind: 'd', mode: 0o755}}, crashAfter: -1, failNext: map[string]bool{}}
	}
	return in.fs
}

func (in *Interp) fsStep(what string) {
	fs := in.vfs()
	if fs.crashAfter >= 0 && fs.steps >= fs.crashAfter {
		fs.oplog = append(fs.oplog, "CRASH before "+what)
		panic(targetPanic{Iface{t: in.runtimeErrType(), v: in.mkStr("verif: simulated crash")}})
	}
	fs.steps++
	fs.oplog = append(fs.oplog, what)
}

// fsPath turns a path argument into a concrete name: symbolic bytes are
// concretised (one alternative per feasible value, decided by the solver).
func (in *Interp) fsPath(v Value, what string) string {
	sv := v.(*StrV)
	if s, ok := sv.Concrete(); ok {
		return s
	}
	if sv.op != nil {
		in.unsupported("%s: opaque string as a filesystem path", what)
	}
	bs := make([]byte, len(sv.b))
	for i, t := range sv.b {
		bs[i] = byte(in.concretize(t, what+" byte", 256))
	}
	return string(bs)
}

type vaccess struct{ op, path string }

func (fs *vfsState) note(op, p string) { fs.access = append(fs.access, vaccess{op, p}) }

func cleanPath(p string) string {
	if !strings.HasPrefix(p, "/") {
		p = "/cwd/" + p
	}
	return path.Clean(p)
}

// resolve follows symlinks in every component (like the OS). final=false keeps
// a trailing symlink unresolved (Lstat semantics).
func (fs *vfsState) resolve(p string, final bool) (string, bool) {
	p = cleanPath(p)
	for hops := 0; hops < 40; hops++ {
		parts := strings.Split(strings.TrimPrefix(p, "/"), "/")
		cur := "/"
		restart := false
		for i, part := range parts {
			if part == "" {
				continue
			}
			next := path.Join(cur, part)
			n := fs.nodes[next]
			if n != nil && n.kind == 'l' && (final || i < len(parts)-1) {
				tgt := n.target
				if !strings.HasPrefix(tgt, "/") {
					tgt = path.Join(cur, tgt)
				}
				rest := strings.Join(parts[i+1:], "/")
				p = path.Clean(path.Join(tgt, rest))
				restart = true
				break
			}
			if n == nil && i < len(parts)-1 {
				return next, false
			}
			if n != nil && n.kind != 'd' && i < len(parts)-1 {
				return next, false
			}
			cur = next
		}
		if !restart {
			return cur, true
		}
	}
	return p, false
}

func (in *Interp) fsErr(kind string, op, p string) Value {
	// sentinel identity matters for errors.Is(err, os.ErrNotExist)
	var sentinel Value
	switch kind {
	case "notexist":
		sentinel = in.osSentinel("ErrNotExist")
	case "exist":
		sentinel = in.osSentinel("ErrExist")
	case "perm":
		sentinel = in.osSentinel("ErrPermission")
	default:
		sentinel = in.osSentinel("ErrInvalid")
	}
	msg := map[string]string{"notexist": "no such file or directory", "exist": "file exists", "perm": "permission denied", "invalid": "invalid argument", "notdir": "not a directory", "isdir": "is a directory"}[kind]
	return in.newErrorV(in.mkStr(op+" "+p+": "+msg), sentinel)
}

func (in *Interp) osSentinel(name string) Value {
	pkg := in.prog.ImportedPackage("io/fs")
	if pkg != nil {
		if g := pkg.Var(name); g != nil {
			return *in.globalAddr(g)
		}
	}
	return in.newError("fs." + name)
}

func (in *Interp) newFileHandle(p string, n *vnode, write, app bool) Value {
	fn := in.lookupFn("os", "Open")
	pt := fn.Signature.Results().At(0).Type()
	slot := new(Value)
	*slot = in.zero(mustDeref(pt))
	in.side[slot] = &Native{kind: "vfile", v: &vfile{path: p, node: n, write: write, append: app}}
	return slot
}

func (in *Interp) fileOf(v Value) *vfile {
	p, _ := v.(*Value)
	if p == nil {
		in.goPanic("invalid memory address or nil pointer dereference (*os.File)")
	}
	n, ok := in.side[p].(*Native)
	if !ok {
		in.unsupported("*os.File not created by the model filesystem")
	}
	return n.v.(*vfile)
}

func (in *Interp) fileInfo(p string, n *vnode) Value {
	return Iface{t: nativeObjType, v: &Native{kind: "fileinfo", v: &vfileInfo{name: path.Base(p), node: n}}}
}

type vfileInfo struct {
	name string
	node *vnode
}

const (
	oWRONLY = 0x1
	oRDWR   = 0x2
	oAPPEND = 0x400
	oCREATE = 0x40
	oEXCL   = 0x80
	oTRUNC  = 0x200
)

func (in *Interp) parentOK(fs *vfsState, p string) bool {
	par := path.Dir(p)
	n := fs.nodes[par]
	return n != nil && n.kind == 'd'
}

func (in *Interp) vfsOpen(pathV Value, flag int, perm uint32) Value {
	fs := in.vfs()
	ps := in.fsPath(pathV, "os.Open path")
	rp, ok := fs.resolve(ps, true)
	n := fs.nodes[rp]
	if !ok {
		return Tuple{(*Value)(nil), in.fsErr("notexist", "open", ps)}
	}
	if n == nil {
		if flag&oCREATE == 0 {
			return Tuple{(*Value)(nil), in.fsErr("notexist", "open", ps)}
		}
		if flag&oEXCL != 0 {
			// O_EXCL does not follow a final symbolic link: a dangling link is an existing name
			if lp, lok := fs.resolve(ps, false); lok && fs.nodes[lp] != nil {
				return Tuple{(*Value)(nil), in.fsErr("exist", "open", ps)}
			}
		}
		if !in.parentOK(fs, rp) {
			return Tuple{(*Value)(nil), in.fsErr("notexist", "open", ps)}
		}
		in.fsStep("create " + rp)
		fs.note("create", rp)
		n = &vnode{kind: 'f', mode: perm}
		fs.nodes[rp] = n
	} else {
		if flag&oCREATE != 0 && flag&oEXCL != 0 {
			return Tuple{(*Value)(nil), in.fsErr("exist", "open", ps)}
		}
		if n.kind == 'd' && flag&(oWRONLY|oRDWR) != 0 {
			return Tuple{(*Value)(nil), in.fsErr("isdir", "open", ps)}
		}
		if flag&oTRUNC != 0 && n.kind == 'f' {
			fs.note("write", rp)
		}
		if flag&oTRUNC != 0 && n.kind == 'f' && len(n.data) > 0 {
			in.fsStep("truncate " + rp)
			n.data = nil
		}
	}
	if flag&(oWRONLY|oRDWR) != 0 {
		fs.note("openw", rp)
	} else if n.kind == 'f' {
		fs.note("read", rp)
	}
	return Tuple{in.newFileHandle(rp, n, flag&(oWRONLY|oRDWR) != 0, flag&oAPPEND != 0), Iface{}}
}

// fileWrite appends/writes data at the handle position; a crash inside leaves a prefix.
func (in *Interp) fileWrite(f *vfile, data []Value) {
	fs := in.vfs()
	if fs.crashAfter >= 0 && fs.steps >= fs.crashAfter && len(data) > 0 {
		// crash during this write: a prefix of symbolic choice reaches the disk
		// (representatives: nothing, all but the last byte)
		k := in.choose(2)
		pre := 0
		if k == 1 {
			pre = len(data) - 1
		}
		in.writeAt(f, data[:pre])
		fs.oplog = append(fs.oplog, "CRASH inside write "+f.path)
		panic(targetPanic{Iface{t: in.runtimeErrType(), v: in.mkStr("verif: simulated crash")}})
	}
	in.fsStep("write " + f.path)
	in.vfs().note("write", f.path)
	in.writeAt(f, data)
}

func (in *Interp) writeAt(f *vfile, data []Value) {
	n := f.node
	if f.append {
		f.pos = len(n.data)
	}
	for len(n.data) < f.pos {
		n.data = append(n.data, in.tc.BV(8, 0))
	}
	for i, b := range data {
		if f.pos+i < len(n.data) {
			n.data[f.pos+i] = b
		} else {
			n.data = append(n.data, b)
		}
	}
	f.pos += len(data)
}

func bytesOf(s SliceV) []Value {
	out := make([]Value, s.n)
	copy(out, s.a[s.off:s.off+s.n])
	return out
}

func (in *Interp) mkBytes(vs []Value) Value {
	a := make([]Value, len(vs))
	copy(a, vs)
	return SliceV{a: a, n: len(a), c: len(a)}
}

func init() {
	registerVFS()
}

func registerVFS() {
	I := func(name string, f intrinsic) { intrinsics[name] = f }
	I("os.Open", func(in *Interp, fr *frame, a []Value) Value { return in.vfsOpen(a[0], 0, 0) })
	I("os.Create", func(in *Interp, fr *frame, a []Value) Value { return in.vfsOpen(a[0], oRDWR|oCREATE|oTRUNC, 0o666) })
	I("os.OpenFile", func(in *Interp, fr *frame, a []Value) Value {
		flag := int(in.concInt(a[1].(*Term), "OpenFile flag"))
		perm := uint32(in.concInt(a[2].(*Term), "OpenFile perm"))
		return in.vfsOpen(a[0], flag, perm)
	})
	I("os.ReadFile", func(in *Interp, fr *frame, a []Value) Value {
		fs := in.vfs()
		ps := in.fsPath(a[0], "os.ReadFile path")
		rp, ok := fs.resolve(ps, true)
		n := fs.nodes[rp]
		if !ok || n == nil {
			return Tuple{SliceV{nil: true}, in.fsErr("notexist", "open", ps)}
		}
		if n.kind != 'f' {
			return Tuple{SliceV{nil: true}, in.fsErr("isdir", "read", ps)}
		}
		fs.note("read", rp)
		return Tuple{in.mkBytes(n.data), Iface{}}
	})
	I("os.WriteFile", func(in *Interp, fr *frame, a []Value) Value {
		perm := uint32(in.concInt(a[2].(*Term), "WriteFile perm"))
		r := in.vfsOpen(a[0], oWRONLY|oCREATE|oTRUNC, perm).(Tuple)
		if e := r[1].(Iface); e.t != nil {
			return e
		}
		f := in.fileOf(r[0])
		in.fileWrite(f, bytesOf(a[1].(SliceV)))
		f.closed = true
		return Iface{}
	})
	stat := func(final bool) intrinsic {
		return func(in *Interp, fr *frame, a []Value) Value {
			fs := in.vfs()
			ps := in.fsPath(a[0], "os.Stat path")
			rp, ok := fs.resolve(ps, final)
			n := fs.nodes[rp]
			if !ok || n == nil {
				return Tuple{Iface{}, in.fsErr("notexist", "stat", ps)}
			}
			return Tuple{in.fileInfo(rp, n), Iface{}}
		}
	}
	I("os.Stat", stat(true))
	I("os.Lstat", stat(false))
	I("os.MkdirAll", func(in *Interp, fr *frame, a []Value) Value {
		fs := in.vfs()
		ps := in.fsPath(a[0], "os.MkdirAll path")
		perm := uint32(in.concInt(a[1].(*Term), "MkdirAll perm"))
		p := cleanPath(ps)
		parts := strings.Split(strings.TrimPrefix(p, "/"), "/")
		cur := "/"
		for _, part := range parts {
			if part == "" {
				continue
			}
			cur = path.Join(cur, part)
			rp, ok := fs.resolve(cur, true)
			n := fs.nodes[rp]
			if ok && n != nil {
				if n.kind != 'd' {
					return in.fsErr("notdir", "mkdir", ps)
				}
				cur = rp
				continue
			}
			if lp, lok := fs.resolve(cur, false); lok && fs.nodes[lp] != nil {
				// dangling symbolic link: mkdir says EEXIST, Lstat says not a directory
				return in.fsErr("exist", "mkdir", ps)
			}
			if !ok {
				return in.fsErr("notexist", "mkdir", ps)
			}
			in.fsStep("mkdir " + rp)
			fs.note("mkdir", rp)
			fs.nodes[rp] = &vnode{kind: 'd', mode: perm}
			cur = rp
		}
		return Iface{}
	})
	I("os.Mkdir", func(in *Interp, fr *frame, a []Value) Value {
		fs := in.vfs()
		ps := in.fsPath(a[0], "os.Mkdir path")
		perm := uint32(in.concInt(a[1].(*Term), "Mkdir perm"))
		rp, ok := fs.resolve(ps, true)
		if !ok || !in.parentOK(fs, rp) {
			return in.fsErr("notexist", "mkdir", ps)
		}
		if fs.nodes[rp] != nil {
			return in.fsErr("exist", "mkdir", ps)
		}
		in.fsStep("mkdir " + rp)
		fs.note("mkdir", rp)
		fs.nodes[rp] = &vnode{kind: 'd', mode: perm}
		return Iface{}
	})
	I("os.Rename", func(in *Interp, fr *frame, a []Value) Value {
		fs := in.vfs()
		from := in.fsPath(a[0], "os.Rename from")
		to := in.fsPath(a[1], "os.Rename to")
		rf, ok1 := fs.resolve(from, false)
		rt, ok2 := fs.resolve(to, false)
		n := fs.nodes[rf]
		if !ok1 || n == nil || !ok2 && !in.parentOK(fs, rt) {
			return in.fsErr("notexist", "rename", from)
		}
		in.fsStep("rename " + rf + " -> " + rt)
		fs.note("remove", rf)
		fs.note("create", rt)
		delete(fs.nodes, rf)
		fs.nodes[rt] = n
		if n.kind == 'd' {
			// move children
			var moved []string
			for k := range fs.nodes {
				if strings.HasPrefix(k, rf+"/") {
					moved = append(moved, k)
				}
			}
			for _, k := range moved {
				fs.nodes[rt+strings.TrimPrefix(k, rf)] = fs.nodes[k]
				delete(fs.nodes, k)
			}
		}
		return Iface{}
	})
	remove := func(all bool) intrinsic {
		return func(in *Interp, fr *frame, a []Value) Value {
			fs := in.vfs()
			ps := in.fsPath(a[0], "os.Remove path")
			rp, ok := fs.resolve(ps, false)
			n := fs.nodes[rp]
			if !ok || n == nil {
				if all {
					return Iface{}
				}
				return in.fsErr("notexist", "remove", ps)
			}
			var kids []string
			for k := range fs.nodes {
				if strings.HasPrefix(k, rp+"/") {
					kids = append(kids, k)
				}
			}
			if len(kids) > 0 && !all {
				return in.fsErr("exist", "remove", ps)
			}
			in.fsStep("remove " + rp)
			fs.note("remove", rp)
			for _, k := range kids {
				delete(fs.nodes, k)
			}
			delete(fs.nodes, rp)
			return Iface{}
		}
	}
	I("os.Remove", remove(false))
	I("os.RemoveAll", remove(true))
	I("os.Chmod", func(in *Interp, fr *frame, a []Value) Value {
		fs := in.vfs()
		ps := in.fsPath(a[0], "os.Chmod path")
		rp, ok := fs.resolve(ps, true)
		n := fs.nodes[rp]
		if !ok || n == nil {
			return in.fsErr("notexist", "chmod", ps)
		}
		in.fsStep("chmod " + rp)
		fs.note("chmod", rp)
		n.mode = uint32(in.concInt(a[1].(*Term), "chmod mode"))
		return Iface{}
	})
	I("os.Symlink", func(in *Interp, fr *frame, a []Value) Value {
		fs := in.vfs()
		tgt := in.fsPath(a[0], "os.Symlink target")
		ps := in.fsPath(a[1], "os.Symlink path")
		rp, ok := fs.resolve(ps, false)
		if !ok || !in.parentOK(fs, rp) {
			return in.fsErr("notexist", "symlink", ps)
		}
		if fs.nodes[rp] != nil {
			return in.fsErr("exist", "symlink", ps)
		}
		in.fsStep("symlink " + rp + " -> " + tgt)
		fs.note("symlink", rp)
		fs.nodes[rp] = &vnode{kind: 'l', target: tgt, mode: 0o777}
		return Iface{}
	})
	I("os.Readlink", func(in *Interp, fr *frame, a []Value) Value {
		fs := in.vfs()
		ps := in.fsPath(a[0], "os.Readlink path")
		rp, ok := fs.resolve(ps, false)
		n := fs.nodes[rp]
		if !ok || n == nil || n.kind != 'l' {
			return Tuple{in.emptyStr, in.fsErr("invalid", "readlink", ps)}
		}
		return Tuple{in.mkStr(n.target), Iface{}}
	})
	I("path/filepath.EvalSymlinks", func(in *Interp, fr *frame, a []Value) Value {
		fs := in.vfs()
		ps := in.fsPath(a[0], "EvalSymlinks path")
		rp, ok := fs.resolve(ps, true)
		if !ok || fs.nodes[rp] == nil {
			return Tuple{in.emptyStr, in.fsErr("notexist", "lstat", ps)}
		}
		return Tuple{in.mkStr(rp), Iface{}}
	})
	I("os.Link", func(in *Interp, fr *frame, a []Value) Value {
		fs := in.vfs()
		oldp := in.fsPath(a[0], "os.Link old")
		newp := in.fsPath(a[1], "os.Link new")
		ro, ok1 := fs.resolve(oldp, false) // linkat does not follow a final symbolic link
		rn, ok2 := fs.resolve(newp, false)
		on := fs.nodes[ro]
		if !ok1 || on == nil {
			return in.fsErr("notexist", "link", oldp)
		}
		if on.kind == 'd' {
			return in.fsErr("perm", "link", oldp)
		}
		if !ok2 || !in.parentOK(fs, rn) {
			return in.fsErr("notexist", "link", newp)
		}
		if fs.nodes[rn] != nil {
			return in.fsErr("exist", "link", newp)
		}
		in.fsStep("link " + rn + " = " + ro)
		fs.note("create", rn)
		fs.note("link", ro)
		fs.nodes[rn] = on
		return Iface{}
	})
	I("os.ReadDir", func(in *Interp, fr *frame, a []Value) Value {
		fs := in.vfs()
		ps := in.fsPath(a[0], "os.ReadDir path")
		rp, ok := fs.resolve(ps, true)
		n := fs.nodes[rp]
		if !ok || n == nil {
			return Tuple{SliceV{nil: true}, in.fsErr("notexist", "open", ps)}
		}
		if n.kind != 'd' {
			return Tuple{SliceV{nil: true}, in.fsErr("notdir", "readdirent", ps)}
		}
		fs.note("list", rp)
		var names []string
		pre := rp + "/"
		if rp == "/" {
			pre = "/"
		}
		for k := range fs.nodes {
			if k != rp && strings.HasPrefix(k, pre) && !strings.Contains(k[len(pre):], "/") {
				names = append(names, k)
			}
		}
		sort.Strings(names)
		out := make([]Value, len(names))
		for i, k := range names {
			out[i] = Iface{t: nativeObjType, v: &Native{kind: "direntry", v: &vfileInfo{name: path.Base(k), node: fs.nodes[k]}}}
		}
		return Tuple{SliceV{a: out, n: len(out), c: len(out)}, Iface{}}
	})
	I("os.UserHomeDir", func(in *Interp, fr *frame, a []Value) Value { return Tuple{in.mkStr("/home/user"), Iface{}} })
	I("os.Getwd", func(in *Interp, fr *frame, a []Value) Value { return Tuple{in.mkStr("/cwd"), Iface{}} })
	I("os.IsNotExist", func(in *Interp, fr *frame, a []Value) Value {
		return in.tc.Bool(in.errorsIs(fr, a[0], in.osSentinel("ErrNotExist"), 0))
	})
	I("os.IsExist", func(in *Interp, fr *frame, a []Value) Value {
		return in.tc.Bool(in.errorsIs(fr, a[0], in.osSentinel("ErrExist"), 0))
	})
	I("os.IsPermission", func(in *Interp, fr *frame, a []Value) Value {
		return in.tc.Bool(in.errorsIs(fr, a[0], in.osSentinel("ErrPermission"), 0))
	})

	// *os.File methods
	I("(*os.File).Close", func(in *Interp, fr *frame, a []Value) Value {
		f := in.fileOf(a[0])
		f.closed = true
		return Iface{}
	})
	I("(*os.File).Sync", func(in *Interp, fr *frame, a []Value) Value { return Iface{} })
	I("(*os.File).Name", func(in *Interp, fr *frame, a []Value) Value { return in.mkStr(in.fileOf(a[0]).path) })
	I("(*os.File).Chmod", func(in *Interp, fr *frame, a []Value) Value { return Iface{} })
	I("(*os.File).Stat", func(in *Interp, fr *frame, a []Value) Value {
		f := in.fileOf(a[0])
		return Tuple{in.fileInfo(f.path, f.node), Iface{}}
	})
	I("(*os.File).Seek", func(in *Interp, fr *frame, a []Value) Value {
		f := in.fileOf(a[0])
		off := in.concInt(a[1].(*Term), "Seek offset")
		wh := in.concInt(a[2].(*Term), "Seek whence")
		var np int64
		switch wh {
		case 0:
			np = off
		case 1:
			np = int64(f.pos) + off
		case 2:
			np = int64(len(f.node.data)) + off
		}
		if np < 0 {
			in.noteFileRange(f, np, 0, "seek")
			return Tuple{in.i64c(0), in.fsErr("invalid", "seek", f.path)}
		}
		f.pos = int(np)
		return Tuple{in.i64c(np), Iface{}}
	})
	I("(*os.File).Read", func(in *Interp, fr *frame, a []Value) Value {
		f := in.fileOf(a[0])
		buf := a[1].(SliceV)
		if buf.n == 0 {
			return Tuple{in.lenTerm(0), Iface{}}
		}
		avail := len(f.node.data) - f.pos
		if avail <= 0 {
			return Tuple{in.lenTerm(0), *in.globalAddr(in.prog.ImportedPackage("io").Var("EOF"))}
		}
		n := buf.n
		if avail < n {
			n = avail
		}
		for i := 0; i < n; i++ {
			buf.a[buf.off+i] = f.node.data[f.pos+i]
		}
		f.pos += n
		return Tuple{in.lenTerm(n), Iface{}}
	})
	I("(*os.File).ReadAt", func(in *Interp, fr *frame, a []Value) Value {
		f := in.fileOf(a[0])
		buf := a[1].(SliceV)
		offT := a[2].(*Term)
		// a symbolic offset is decided: negative -> error; otherwise concretised
		neg := in.tc.Lt(offT, in.constLike(offT, 0), true)
		if in.branch(neg) {
			in.noteFileRange(f, -1, buf.n, "ReadAt")
			return Tuple{in.lenTerm(0), in.newError("readat " + f.path + ": negative offset")}
		}
		off := int(in.concInt(offT, "ReadAt offset"))
		in.noteFileRange(f, int64(off), buf.n, "ReadAt")
		n := 0
		for n < buf.n && off+n < len(f.node.data) {
			buf.a[buf.off+n] = f.node.data[off+n]
			n++
		}
		if n < buf.n {
			return Tuple{in.lenTerm(n), *in.globalAddr(in.prog.ImportedPackage("io").Var("EOF"))}
		}
		return Tuple{in.lenTerm(n), Iface{}}
	})
	I("(*os.File).Write", func(in *Interp, fr *frame, a []Value) Value {
		f := in.fileOf(a[0])
		if !f.write {
			return Tuple{in.lenTerm(0), in.fsErr("perm", "write", f.path)}
		}
		data := bytesOf(a[1].(SliceV))
		in.fileWrite(f, data)
		return Tuple{in.lenTerm(len(data)), Iface{}}
	})
	I("(*os.File).WriteString", func(in *Interp, fr *frame, a []Value) Value {
		f := in.fileOf(a[0])
		s := a[1].(*StrV)
		data := make([]Value, len(s.b))
		for i, b := range s.b {
			data[i] = b
		}
		in.fileWrite(f, data)
		return Tuple{in.lenTerm(len(data)), Iface{}}
	})

	// FileInfo methods
	nativeMethods["fileinfo.Size"] = func(in *Interp, fr *frame, a []Value) Value {
		fi := a[0].(*Native).v.(*vfileInfo)
		return in.i64c(int64(len(fi.node.data)))
	}
	nativeMethods["fileinfo.Mode"] = func(in *Interp, fr *frame, a []Value) Value {
		fi := a[0].(*Native).v.(*vfileInfo)
		m := fi.node.mode & 0o777
		switch fi.node.kind {
		case 'd':
			m |= 1 << 31
		case 'l':
			m |= 1 << 27
		}
		return in.tc.BV(32, uint64(m))
	}
	nativeMethods["fileinfo.IsDir"] = func(in *Interp, fr *frame, a []Value) Value {
		return in.tc.Bool(a[0].(*Native).v.(*vfileInfo).node.kind == 'd')
	}
	nativeMethods["fileinfo.Name"] = func(in *Interp, fr *frame, a []Value) Value {
		return in.mkStr(a[0].(*Native).v.(*vfileInfo).name)
	}
	nativeMethods["fileinfo.ModTime"] = func(in *Interp, fr *frame, a []Value) Value {
		return in.mkTime(in.i64c(1700000000000000000))
	}
	nativeMethods["direntry.Name"] = nativeMethods["fileinfo.Name"]
	nativeMethods["direntry.IsDir"] = nativeMethods["fileinfo.IsDir"]
	nativeMethods["direntry.Type"] = func(in *Interp, fr *frame, a []Value) Value {
		fi := a[0].(*Native).v.(*vfileInfo)
		var m uint32
		switch fi.node.kind {
		case 'd':
			m |= 1 << 31
		case 'l':
			m |= 1 << 27
		}
		return in.tc.BV(32, uint64(m))
	}
	nativeMethods["direntry.Info"] = func(in *Interp, fr *frame, a []Value) Value {
		fi := a[0].(*Native).v.(*vfileInfo)
		return Tuple{Iface{t: nativeObjType, v: &Native{kind: "fileinfo", v: fi}}, Iface{}}
	}
	nativeMethods["fileinfo.Sys"] = func(in *Interp, fr *frame, a []Value) Value { return Iface{} }

	// harness access to the model filesystem
	harnessIntrinsics["verif_fs_write"] = func(in *Interp, fr *frame, a []Value) Value {
		fs := in.vfs()
		p := cleanPath(in.fsPath(a[0], "verif_fs_write path"))
		// create parents
		par := path.Dir(p)
		var mk []string
		for par != "/" && fs.nodes[par] == nil {
			mk = append(mk, par)
			par = path.Dir(par)
		}
		for _, d := range mk {
			fs.nodes[d] = &vnode{kind: 'd', mode: 0o755}
		}
		fs.nodes[p] = &vnode{kind: 'f', mode: 0o644, data: bytesOf(a[1].(SliceV))}
		return nil
	}
	harnessIntrinsics["verif_fs_mkdir"] = func(in *Interp, fr *frame, a []Value) Value {
		fs := in.vfs()
		p := cleanPath(in.fsPath(a[0], "verif_fs_mkdir path"))
		for p != "/" {
			if fs.nodes[p] == nil {
				fs.nodes[p] = &vnode{kind: 'd', mode: 0o755}
			}
			p = path.Dir(p)
		}
		return nil
	}
	harnessIntrinsics["verif_fs_symlink"] = func(in *Interp, fr *frame, a []Value) Value {
		fs := in.vfs()
		tgt := in.fsPath(a[0], "target")
		p := cleanPath(in.fsPath(a[1], "path"))
		fs.nodes[p] = &vnode{kind: 'l', target: tgt, mode: 0o777}
		return nil
	}
	harnessIntrinsics["verif_fs_read"] = func(in *Interp, fr *frame, a []Value) Value {
		fs := in.vfs()
		p := cleanPath(in.fsPath(a[0], "verif_fs_read path"))
		n := fs.nodes[p]
		if n == nil || n.kind != 'f' {
			return Tuple{SliceV{nil: true}, in.tc.tFalse}
		}
		return Tuple{in.mkBytes(n.data), in.tc.tTrue}
	}
	harnessIntrinsics["verif_fs_exists"] = func(in *Interp, fr *frame, a []Value) Value {
		fs := in.vfs()
		p := cleanPath(in.fsPath(a[0], "verif_fs_exists path"))
		return in.tc.Bool(fs.nodes[p] != nil)
	}
	harnessIntrinsics["verif_fs_path"] = func(in *Interp, fr *frame, a []Value) Value {
		return in.mkStr("/vfs/" + in.fsPath(a[0], "verif_fs_path"))
	}
	// first logged access of one of the given kinds whose real path is under none of the prefixes
	harnessIntrinsics["verif_fs_outside"] = func(in0 *Interp, fr *frame, a []Value) Value {
		in := in0
		fs := in.vfs()
		pres := strings.Split(in.concreteStr(a[0], "verif_fs_outside prefixes"), ":")
		kinds := "," + in.concreteStr(a[1], "verif_fs_outside kinds") + ","
		for _, ac := range fs.access {
			if !strings.Contains(kinds, ","+ac.op+",") {
				continue
			}
			inside := false
			for _, pre := range pres {
				pre = cleanPath(pre)
				if ac.path == pre || strings.HasPrefix(ac.path, pre+"/") {
					inside = true
				}
			}
			if !inside {
				return in0.mkStr(ac.op + " " + ac.path)
			}
		}
		return in0.mkStr("")
	}
	harnessIntrinsics["verif_fs_log_reset"] = func(in *Interp, fr *frame, a []Value) Value {
		in.vfs().access = nil
		return nil
	}
	// state of everything under root except the subtree at exclude
	harnessIntrinsics["verif_fs_digest"] = func(in *Interp, fr *frame, a []Value) Value {
		fs := in.vfs()
		root := cleanPath(in.concreteStr(a[0], "verif_fs_digest root"))
		var excls []string
		for _, e := range strings.Split(in.concreteStr(a[1], "verif_fs_digest exclude"), ":") {
			excls = append(excls, cleanPath(e))
		}
		links := map[*vnode]int{}
		for _, n := range fs.nodes {
			links[n]++
		}
		var ks []string
		for k, n := range fs.nodes {
			skip := false
			for _, excl := range excls {
				if k == excl || strings.HasPrefix(k, excl+"/") {
					skip = true
				}
			}
			if skip {
				continue
			}
			if k != root && !strings.HasPrefix(k, root+"/") {
				continue
			}
			d := fmt.Sprintf("%s|%c|%o|%s|n%d|", strings.TrimPrefix(k, root), n.kind, n.mode&0o777, n.target, links[n])
			if n.kind != 'f' {
				d = fmt.Sprintf("%s|%c|%s|", strings.TrimPrefix(k, root), n.kind, n.target)
				if n.kind == 'd' {
					d += fmt.Sprintf("%o", n.mode&0o777)
				}
			}
			for _, b := range n.data {
				t := b.(*Term)
				if t.IsConst() {
					d += fmt.Sprintf("%02x", t.k)
				} else {
					d += fmt.Sprintf("<t%d>", t.id)
				}
			}
			ks = append(ks, d)
		}
		sort.Strings(ks)
		return in.mkStr(strings.Join(ks, ";"))
	}
	harnessIntrinsics["verif_fs_steps"] = func(in *Interp, fr *frame, a []Value) Value {
		return in.lenTerm(in.vfs().steps)
	}
	harnessIntrinsics["verif_fs_crash_after"] = func(in *Interp, fr *frame, a []Value) Value {
		k := int(in.concInt(a[0].(*Term), "crash_after"))
		fs := in.vfs()
		if k < 0 {
			fs.crashAfter = -1
		} else {
			fs.crashAfter = fs.steps + k
		}
		return nil
	}
	harnessIntrinsics["verif_fs_oob"] = func(in *Interp, fr *frame, a []Value) Value {
		return in.tc.Bool(in.vfs().oob())
	}
	harnessIntrinsics["verif_fs_list"] = func(in *Interp, fr *frame, a []Value) Value {
		fs := in.vfs()
		var ks []string
		for k, n := range fs.nodes {
			ks = append(ks, string(n.kind)+":"+k)
		}
		sort.Strings(ks)
		return in.mkStr(strings.Join(ks, ","))
	}
}

func (fs *vfsState) oob() bool { return fs.failNext["oob"] }

// noteFileRange records reads that fall outside the file.
func (in *Interp) noteFileRange(f *vfile, off int64, n int, what string) {
	if off < 0 || off+int64(n) > int64(len(f.node.data)) {
		in.vfs().failNext["oob"] = true
	}
}
