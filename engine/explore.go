package main

import (
	"fmt"
	"golang.org/x/tools/go/ssa/ssautil"
	"os"
	"sort"
	"strings"
	"sync"
	"time"

	"golang.org/x/tools/go/ssa"
)

type Config struct {
	Repo          string                  `json:"repo"`
	Pkg           string                  `json:"pkg"`
	ModulePath    string                  `json:"module"`
	OverlayDirs   []string                `json:"overlay_dirs"` // harness dirs copied virtually into the package dir
	Harnesses     []string                `json:"harnesses"`
	Unwind        int                     `json:"unwind"`
	MaxDecisions  int                     `json:"max_decisions"`
	StepBudget    int64                   `json:"step_budget"`
	MaxPaths      int                     `json:"max_paths"`
	ConcLimit     int                     `json:"conc_limit"`
	MaxAlloc      int                     `json:"max_alloc"`
	SymIdxMax     int                     `json:"sym_idx_max"`
	Workers       int                     `json:"workers"`
	TimeoutMS     int                     `json:"solver_timeout_ms"`
	IntMode       bool                    `json:"int_mode"`
	SchedExplore  bool                    `json:"sched_explore"`
	PreemptSync   bool                    `json:"preempt_sync"`
	SelectExplore bool                    `json:"select_explore"`
	MaxPreempt    int                     `json:"max_preemptions"`
	Replace       map[string]string       `json:"replace"`
	Seed          int64                   `json:"seed"`
	Out           string                  `json:"out"`
	LibDir        string                  `json:"lib_dir"`
	SolverBin     string                  `json:"solver"`
	NoMerge       bool                    `json:"no_merge"`
	MakeLenSplit  int                     `json:"make_len_split"`
	SliceLenSplit int                     `json:"slice_len_split"`
	ExtraOverlays []ExtraOverlay          `json:"extra_overlays"`
	OnlyFiles     []string                `json:"only_files"`
	DumpSMT       string                  `json:"dump_smt"`
	PerHarness    map[string]*HarnessOpts `json:"per_harness"`

	allocHook func(in *Interp, instr ssa.Instruction, n int64)
}

type ExtraOverlay struct {
	Dir   string   `json:"dir"`
	Pkg   string   `json:"pkg"`
	Files []string `json:"files"`
}

type HarnessOpts struct {
	Unwind       int   `json:"unwind"`
	IntMode      *bool `json:"int_mode"`
	SchedExplore *bool `json:"sched_explore"`
	PreemptSync  *bool `json:"preempt_sync"`
	MaxPaths     int   `json:"max_paths"`
	MaxPreempt   int   `json:"max_preemptions"`
}

type HarnessResult struct {
	Harness      string         `json:"harness"`
	Paths        int            `json:"paths"`
	Completed    int            `json:"completed"`
	Ends         map[string]int `json:"ends"`
	EndMsgs      map[string]int `json:"end_msgs"`
	Queries      int            `json:"queries"`
	SolverMS     int64          `json:"solver_ms"`
	Unknowns     int            `json:"unknowns"`
	Fallbacks    int            `json:"fallbacks"`
	Violations   []*Violation   `json:"violations"`
	Reached      []string       `json:"reached"`
	Asserts      int            `json:"asserts_checked"`
	Funcs        []string       `json:"functions_encoded"`
	WallMS       int64          `json:"wall_ms"`
	Steps        int64          `json:"steps"`
	MaxTrace     int            `json:"max_decisions_on_a_path"`
	Inconclusive []string       `json:"inconclusive"`
	SamplePaths  []string       `json:"sample_paths"`
	Truncated    bool           `json:"truncated"`
	Cuts         int            `json:"cuts"`
	LongestTrace string         `json:"longest_trace_kinds"`
}

type workItem struct{ prefix []Dec }

// explore runs all paths of one harness.
func explore(prog *ssa.Program, pkg *ssa.Package, cfg *Config, hname string) *HarnessResult {
	fn := pkg.Func(hname)
	res := &HarnessResult{Harness: hname, Ends: map[string]int{}, EndMsgs: map[string]int{},
		Violations: []*Violation{}, Reached: []string{}, Funcs: []string{}, Inconclusive: []string{}, SamplePaths: []string{}}
	if fn == nil {
		res.Inconclusive = append(res.Inconclusive, "harness function not found: "+hname)
		return res
	}
	hcfg := *cfg
	if o := cfg.PerHarness[hname]; o != nil {
		if o.Unwind > 0 {
			hcfg.Unwind = o.Unwind
		}
		if o.IntMode != nil {
			hcfg.IntMode = *o.IntMode
		}
		if o.SchedExplore != nil {
			hcfg.SchedExplore = *o.SchedExplore
		}
		if o.PreemptSync != nil {
			hcfg.PreemptSync = *o.PreemptSync
		}
		if o.MaxPaths > 0 {
			hcfg.MaxPaths = o.MaxPaths
		}
		if o.MaxPreempt > 0 {
			hcfg.MaxPreempt = o.MaxPreempt
		}
	}
	t0 := time.Now()
	var mu sync.Mutex
	cond := sync.NewCond(&mu)
	queue := []workItem{{}}
	active := 0
	reached := map[string]bool{}
	funcs := map[string]bool{}
	violByTag := map[string]*Violation{}
	inconc := map[string]bool{}
	var wg sync.WaitGroup
	nw := hcfg.Workers
	if nw <= 0 {
		nw = 8
	}
	stop := false
	progDone := make(chan struct{})
	if os.Getenv("SYMGO_PROGRESS") != "" {
		go func() {
			tk := time.NewTicker(5 * time.Second)
			defer tk.Stop()
			for {
				select {
				case <-progDone:
					return
				case <-tk.C:
					mu.Lock()
					fmt.Fprintf(os.Stderr, "[symgo] %s progress: paths=%d queue=%d active=%d ends=%v maxtrace=%d\n", hname, res.Paths, len(queue), active, res.Ends, res.MaxTrace)
					mu.Unlock()
				}
			}
		}()
	}
	for w := 0; w < nw; w++ {
		wg.Add(1)
		go func(w int) {
			defer wg.Done()
			sol, err := NewSolver(hcfg.TimeoutMS, hcfg.SolverBin)
			if err != nil {
				mu.Lock()
				inconc["cannot start solver: "+err.Error()] = true
				mu.Unlock()
				return
			}
			defer sol.Close()
			if hcfg.DumpSMT != "" && w == 0 {
				f, _ := os.Create(hcfg.DumpSMT)
				sol.dump = f
				defer f.Close()
			}
			for {
				mu.Lock()
				for len(queue) == 0 && active > 0 && !stop {
					cond.Wait()
				}
				if stop || (len(queue) == 0 && active == 0) {
					mu.Unlock()
					cond.Broadcast()
					return
				}
				// LIFO: depth-first keeps the queue small
				it := queue[len(queue)-1]
				queue = queue[:len(queue)-1]
				active++
				mu.Unlock()

				run, in := runPath(prog, pkg, &hcfg, fn, sol, it.prefix)

				mu.Lock()
				active--
				res.Paths++
				res.Ends[run.end]++
				if run.end != "ok" && run.end != "infeasible" && run.end != "crash" {
					res.EndMsgs[run.end+": "+run.endMsg]++
				}
				if run.end == "ok" || run.end == "crash" {
					res.Completed++
				}
				res.Steps += run.steps
				res.Asserts += run.asserts
				res.Cuts += run.cuts
				if len(run.trace) > res.MaxTrace {
					res.MaxTrace = len(run.trace)
					var kb []byte
					for _, d := range run.trace {
						c := d.Kind
						if c == 0 {
							c = '?'
						}
						if d.Forced {
							c = c - 'a' + 'A'
						}
						kb = append(kb, c)
					}
					res.LongestTrace = string(kb)
				}
				for k := range run.reached {
					reached[k] = true
				}
				for f := range in.funcsSeen {
					funcs[f.String()] = true
				}
				for _, v := range run.viols {
					key := v.Kind + "|" + v.Tag
					if old, ok := violByTag[key]; ok {
						old.Count += v.Count
					} else {
						violByTag[key] = v
					}
				}
				switch run.end {
				case "unsupported", "unwind", "budget", "unknown", "deadlock":
					inconc[run.end+": "+run.endMsg] = true
				}
				if len(res.SamplePaths) < 5 && (run.end == "ok" || run.end == "crash") {
					res.SamplePaths = append(res.SamplePaths, fmt.Sprintf("decisions=%d end=%s nondets=%d asserts=%d", len(run.trace), run.end, len(run.nondets), run.asserts))
				}
				for _, sp := range run.spawned {
					queue = append(queue, workItem{sp})
				}
				if hcfg.MaxPaths > 0 && res.Paths >= hcfg.MaxPaths && (len(queue) > 0 || active > 0) {
					stop = true
					res.Truncated = true
					inconc[fmt.Sprintf("path budget %d exhausted with %d prefixes pending", hcfg.MaxPaths, len(queue))] = true
				}
				mu.Unlock()
				cond.Broadcast()
			}
		}(w)
	}
	wg.Wait()
	close(progDone)
	// gather solver stats: done through global counters
	res.Queries = int(statQueries.Swap(0))
	res.SolverMS = statSolverNS.Swap(0) / 1e6
	res.Unknowns = int(statUnknowns.Swap(0))
	res.Fallbacks = int(statFallbacks.Swap(0))
	for k := range reached {
		res.Reached = append(res.Reached, k)
	}
	sort.Strings(res.Reached)
	for k := range funcs {
		if !strings.Contains(k, "verif_") {
			res.Funcs = append(res.Funcs, k)
		}
	}
	sort.Strings(res.Funcs)
	for _, v := range violByTag {
		res.Violations = append(res.Violations, v)
	}
	sort.Slice(res.Violations, func(i, j int) bool { return res.Violations[i].Tag < res.Violations[j].Tag })
	for k := range inconc {
		res.Inconclusive = append(res.Inconclusive, k)
	}
	sort.Strings(res.Inconclusive)
	res.WallMS = time.Since(t0).Milliseconds()
	return res
}

// runPath executes one path with a fresh interpreter state.
func runPath(prog *ssa.Program, pkg *ssa.Package, cfg *Config, fn *ssa.Function, sol *Solver, prefix []Dec) (*PathRun, *Interp) {
	tc := NewTermCtx()
	in := &Interp{
		prog: prog, mainPkg: pkg, cfg: cfg, tc: tc, sol: sol,
		globals:   map[*ssa.Global]*Value{},
		initDone:  map[*ssa.Package]bool{},
		locks:     map[*Value]*lockState{},
		onces:     map[*Value]bool{},
		wgs:       map[*Value]*Term{},
		side:      map[*Value]Value{},
		funcsSeen: map[*ssa.Function]bool{},
		heldLocks: map[*Thread][]*Value{},
		guarded:   map[*Value]*Value{},
		intMode:   cfg.IntMode,
		harness:   fn.Name(),
		replaceFn: replaceTable(prog, cfg),
		stats:     &Stats{},
	}
	in.emptyStr = &StrV{}
	in.errType = errorType()
	run := &PathRun{prefix: prefix, reached: map[string]bool{}, assumes: map[string]bool{}}
	in.run = run
	q0, ns0, u0, f0 := sol.Queries, sol.SolverNS, sol.Unknowns, sol.Fallbacks
	sol.BeginPath(tc)
	main := &Thread{id: 0, resume: make(chan struct{}), exited: make(chan struct{}), started: true}
	in.threads = []*Thread{main}
	in.cur = main
	func() {
		defer func() {
			r := recover()
			switch r := r.(type) {
			case nil:
				run.end = "ok"
			case pathEnd:
				run.end, run.endMsg = r.kind, r.msg
			case targetPanic:
				run.end = "crash"
				run.endMsg = in.valueString(r.v)
				msg := in.panicMessage(r.v)
				run.endMsg = msg
				in.recordViolation("crash: "+msg, "crash", "")
			default:
				run.end, run.endMsg = "unsupported", fmt.Sprintf("engine panic: %v", r)
			}
		}()
		in.call(nil, fn.Pos(), fn, nil)
	}()
	in.killThreads()
	statQueries.Add(int64(sol.Queries - q0))
	statSolverNS.Add(sol.SolverNS - ns0)
	statUnknowns.Add(int64(sol.Unknowns - u0))
	statFallbacks.Add(int64(sol.Fallbacks - f0))
	return run, in
}

func (in *Interp) panicMessage(v Value) string {
	if i, ok := v.(Iface); ok {
		if i.t == runtimeErrNamed {
			s, _ := i.v.(*StrV).Concrete()
			return s
		}
		if i.t == nativeErrType {
			s, ok := i.v.(*Native).v.(*errObj).msg.Concrete()
			if ok {
				return s
			}
			return "error(<symbolic>)"
		}
		if s, ok := i.v.(*StrV); ok {
			cs, ok := s.Concrete()
			if ok {
				return cs
			}
		}
		return "panic(" + i.t.String() + ")"
	}
	return "panic"
}

var replaceCache sync.Map

func replaceTable(prog *ssa.Program, cfg *Config) map[string]*ssa.Function {
	if len(cfg.Replace) == 0 {
		return nil
	}
	if v, ok := replaceCache.Load(cfg); ok {
		return v.(map[string]*ssa.Function)
	}
	tab := map[string]*ssa.Function{}
	byName := map[string]*ssa.Function{}
	for _, p := range prog.AllPackages() {
		for _, m := range p.Members {
			if f, ok := m.(*ssa.Function); ok {
				byName[f.String()] = f
			}
		}
	}
	all := map[string]bool{}
	for f := range ssautil.AllFunctions(prog) {
		all[f.String()] = true
	}
	for from, to := range cfg.Replace {
		if !all[from] {
			// e.g. a promoted method must be named by the type that declares it
			fmt.Fprintf(os.Stderr, "FATAL: function to replace not found in the program: %s\n", from)
			os.Exit(3)
		}
		if f, ok := byName[to]; ok {
			tab[from] = f
		} else {
			// a silently ignored replacement would run the real library code instead of the stub
			fmt.Fprintf(os.Stderr, "FATAL: replace target not found: %s\n", to)
			os.Exit(3)
		}
	}
	replaceCache.Store(cfg, tab)
	return tab
}
