package main

import (
	"go/token"
	"go/types"

	"golang.org/x/tools/go/ssa"
)

// Cooperative threads: each interpreted goroutine is a real goroutine, but only
// the holder of the baton runs. Switches happen when a thread blocks, finishes,
// yields, or (optionally) before synchronisation operations.

type Thread struct {
	id      int
	resume  chan struct{}
	exited  chan struct{}
	started bool
	done    bool
	ready   func() bool
	fn      Value
	args    []Value
	pos     token.Pos
}

type lockState struct {
	writer  *Thread
	locked  bool
	readers int
}

type timerObj struct {
	id      int
	fn      Value  // AfterFunc callback (nil for channel timers)
	ch      *ChanV // channel timers / tickers
	stopped bool
	fired   bool
	ticker  bool
	dur     *Term
	handle  *Value // the *time.Timer / *time.Ticker object
}

func (in *Interp) spawn(fn Value, args []Value, pos token.Pos) *Thread {
	in.nextTID++
	th := &Thread{id: in.nextTID, resume: make(chan struct{}), exited: make(chan struct{}), fn: fn, args: args, pos: pos}
	in.threads = append(in.threads, th)
	return th
}

func (th *Thread) runnable() bool {
	if th.done {
		return false
	}
	return th.ready == nil || th.ready()
}

func (in *Interp) runnableOthers() []*Thread {
	var rs []*Thread
	for _, t := range in.threads {
		if t != in.cur && t.runnable() {
			rs = append(rs, t)
		}
	}
	return rs
}

// endSignal carries a path termination raised in a non-main thread.
type endSignal struct{ pe pathEnd }

func (in *Interp) switchTo(next *Thread) {
	me := in.cur
	in.cur = next
	if !next.started {
		next.started = true
		go in.threadMain(next)
	} else {
		next.resume <- struct{}{}
	}
	<-me.resume
	in.afterResume(me)
}

func (in *Interp) afterResume(me *Thread) {
	if me.id == 0 {
		if in.pendingEnd != nil {
			pe := *in.pendingEnd
			in.pendingEnd = nil
			panic(pe)
		}
		if in.pendingCrash != nil {
			p := in.pendingCrash
			in.pendingCrash = nil
			panic(p)
		}
		return
	}
	if in.aborted {
		panic(pathEnd{"abort", ""})
	}
}

func (in *Interp) threadMain(th *Thread) {
	defer func() {
		r := recover()
		th.done = true
		close(th.exited)
		if in.aborted {
			return
		}
		main := in.threads[0]
		switch r := r.(type) {
		case nil:
		case pathEnd:
			if r.kind == "abort" {
				return
			}
			in.pendingEnd = &r
			in.cur = main
			main.resume <- struct{}{}
			return
		case targetPanic:
			// an uncaught panic in a goroutine crashes the program
			in.pendingCrash = r
			in.cur = main
			main.resume <- struct{}{}
			return
		default:
			pe := pathEnd{"unsupported", "engine panic in goroutine"}
			in.pendingEnd = &pe
			in.cur = main
			main.resume <- struct{}{}
			return
		}
		// normal termination: hand the baton on
		next := in.pickAfter(th)
		if next == nil {
			pe := pathEnd{"deadlock", "all goroutines are blocked"}
			in.pendingEnd = &pe
			next = main
		}
		in.cur = next
		if !next.started {
			next.started = true
			go in.threadMain(next)
		} else {
			next.resume <- struct{}{}
		}
	}()
	in.call(nil, th.pos, th.fn, th.args)
}

// pickAfter chooses the next thread when cur blocks or ends.
func (in *Interp) pickAfter(cur *Thread) *Thread {
	var rs []*Thread
	for _, t := range in.threads {
		if t != cur && t.runnable() {
			rs = append(rs, t)
		}
	}
	if len(rs) == 0 {
		return nil
	}
	if in.schedExplore() {
		return rs[in.choose(len(rs))]
	}
	if rs[0].id == 0 {
		return rs[0]
	}
	return rs[0]
}

// block suspends the current thread until ready() holds.
func (in *Interp) block(ready func() bool, what string) {
	me := in.cur
	for !ready() {
		me.ready = ready
		next := in.pickAfter(me)
		if next == nil {
			me.ready = nil
			panic(pathEnd{"deadlock", "deadlock: " + what})
		}
		in.switchTo(next)
	}
	me.ready = nil
}

// yield lets other runnable threads run (decision point when exploring).
func (in *Interp) yield() {
	rs := in.runnableOthers()
	if len(rs) == 0 {
		return
	}
	if in.schedExplore() {
		c := in.choose(len(rs) + 1)
		if c == 0 {
			return
		}
		in.switchTo(rs[c-1])
		return
	}
	in.switchTo(rs[0])
}

// preempt is called before synchronisation operations.
func (in *Interp) preempt() {
	if !in.preemptSync() {
		return
	}
	// context bound: voluntary switches at synchronisation operations are limited;
	// switches forced by blocking are always explored
	if in.cfg.MaxPreempt > 0 && in.preemptsUsed >= in.cfg.MaxPreempt {
		return
	}
	rs := in.runnableOthers()
	if len(rs) == 0 {
		return
	}
	c := 0
	if in.schedExplore() {
		c = in.choose(len(rs) + 1)
	}
	if c == 0 {
		return
	}
	in.preemptsUsed++
	in.switchTo(rs[c-1])
}

// drain runs the other threads until none is runnable.
func (in *Interp) drain() {
	for i := 0; i < 10000; i++ {
		rs := in.runnableOthers()
		if len(rs) == 0 {
			return
		}
		var next *Thread
		if in.schedExplore() {
			next = rs[in.choose(len(rs))]
		} else {
			next = rs[0]
		}
		in.switchTo(next)
	}
	panic(pathEnd{"budget", "drain did not quiesce"})
}

func (in *Interp) killThreads() {
	in.aborted = true
	for _, t := range in.threads {
		if t.id != 0 && t.started && !t.done {
			t.resume <- struct{}{}
			<-t.exited
		}
	}
}

// ---------- channels ----------

func (in *Interp) chanSend(c *ChanV, v Value) {
	in.preempt()
	if c == nil {
		in.block(func() bool { return false }, "send on nil channel")
	}
	if c.closed {
		in.goPanic("send on closed channel")
	}
	if c.cap > 0 {
		in.block(func() bool { return len(c.buf) < c.cap || c.closed }, "send on full channel")
		if c.closed {
			in.goPanic("send on closed channel")
		}
		c.buf = append(c.buf, copyVal(v))
		return
	}
	// unbuffered: wait for a receiver to be waiting, then hand over
	in.block(func() bool { return c.recvWaiting > 0 || c.closed }, "send on unbuffered channel without receiver")
	if c.closed {
		in.goPanic("send on closed channel")
	}
	c.recvWaiting--
	c.buf = append(c.buf, copyVal(v))
}

func (in *Interp) chanRecv(c *ChanV, et types.Type) (Value, bool) {
	in.preempt()
	if c == nil {
		in.block(func() bool { return false }, "receive from nil channel")
	}
	if c.cap == 0 && len(c.buf) == 0 && !c.closed {
		c.recvWaiting++
		got := false
		defer func() {
			if !got && c.recvWaiting > 0 {
				c.recvWaiting--
			}
		}()
		in.block(func() bool { return len(c.buf) > 0 || c.closed }, "receive on channel without sender")
		got = true
	} else {
		in.block(func() bool { return len(c.buf) > 0 || c.closed }, "receive on empty channel")
	}
	if len(c.buf) > 0 {
		v := c.buf[0]
		c.buf = c.buf[1:]
		return v, true
	}
	return in.zero(et), false
}

func (in *Interp) chanClose(c *ChanV) {
	if c == nil {
		in.goPanic("close of nil channel")
	}
	if c.closed {
		in.goPanic("close of closed channel")
	}
	c.closed = true
}

func (in *Interp) selectReady(st *ssa.SelectState, c *ChanV) bool {
	if c == nil {
		return false
	}
	if st.Dir == types.RecvOnly {
		return len(c.buf) > 0 || c.closed
	}
	if c.closed {
		return true // will panic
	}
	if c.cap > 0 {
		return len(c.buf) < c.cap
	}
	return c.recvWaiting > 0
}

func (in *Interp) doSelect(fr *frame, instr *ssa.Select) Value {
	in.preempt()
	tc := in.tc
	chans := make([]*ChanV, len(instr.States))
	for i, st := range instr.States {
		chans[i], _ = fr.get(st.Chan).(*ChanV)
	}
	readyIdx := func() []int {
		var r []int
		for i, st := range instr.States {
			if in.selectReady(st, chans[i]) {
				r = append(r, i)
			}
		}
		return r
	}
	rs := readyIdx()
	chosen := -1
	if len(rs) == 0 {
		if !instr.Blocking {
			chosen = -1
		} else {
			// register as waiting receiver on unbuffered channels
			for i, st := range instr.States {
				if st.Dir == types.RecvOnly && chans[i] != nil && chans[i].cap == 0 {
					chans[i].recvWaiting++
				}
			}
			in.block(func() bool { return len(readyIdx()) > 0 }, "select with no ready case")
			for i, st := range instr.States {
				if st.Dir == types.RecvOnly && chans[i] != nil && chans[i].cap == 0 && chans[i].recvWaiting > 0 {
					chans[i].recvWaiting--
				}
			}
			rs = readyIdx()
		}
	}
	if len(rs) > 0 {
		if len(rs) == 1 || !in.cfg.SelectExplore {
			chosen = rs[0]
		} else {
			chosen = rs[in.choose(len(rs))]
		}
	}
	r := Tuple{tc.BV(64, uint64(int64(chosen))), tc.tFalse}
	for i, st := range instr.States {
		if st.Dir == types.RecvOnly {
			var v Value
			et := mustChanElem(st.Chan.Type())
			if i == chosen {
				c := chans[i]
				if len(c.buf) > 0 {
					v = c.buf[0]
					c.buf = c.buf[1:]
					r[1] = tc.tTrue
				} else {
					v = in.zero(et)
				}
			} else {
				v = in.zero(et)
			}
			r = append(r, v)
		} else if i == chosen {
			c := chans[i]
			if c.closed {
				in.goPanic("send on closed channel")
			}
			if c.cap == 0 {
				c.recvWaiting--
			}
			c.buf = append(c.buf, copyVal(fr.get(st.Send)))
		}
	}
	return r
}

// ---------- locks ----------

func (in *Interp) lockOf(p *Value) *lockState {
	l := in.locks[p]
	if l == nil {
		l = &lockState{}
		in.locks[p] = l
	}
	return l
}

func (in *Interp) mutexLock(p *Value) {
	in.preempt()
	l := in.lockOf(p)
	in.block(func() bool { return !l.locked && l.readers == 0 }, "sync.Mutex.Lock on held mutex")
	l.locked = true
	l.writer = in.cur
	in.heldLocks[in.cur] = append(in.heldLocks[in.cur], p)
}

func (in *Interp) mutexUnlock(p *Value) {
	l := in.lockOf(p)
	if !l.locked {
		panic(targetPanic{in.newError("sync: unlock of unlocked mutex")})
	}
	l.locked = false
	l.writer = nil
	in.dropHeld(p)
	in.preempt()
}

func (in *Interp) dropHeld(p *Value) {
	for th, hs := range in.heldLocks {
		for i := len(hs) - 1; i >= 0; i-- {
			if hs[i] == p {
				in.heldLocks[th] = append(hs[:i:i], hs[i+1:]...)
				return
			}
		}
	}
}

func (in *Interp) rLock(p *Value) {
	in.preempt()
	l := in.lockOf(p)
	in.block(func() bool { return !l.locked }, "sync.RWMutex.RLock on write-held mutex")
	l.readers++
	in.heldLocks[in.cur] = append(in.heldLocks[in.cur], p)
}

func (in *Interp) rUnlock(p *Value) {
	l := in.lockOf(p)
	if l.readers <= 0 {
		panic(targetPanic{in.newError("sync: RUnlock of unlocked RWMutex")})
	}
	l.readers--
	in.dropHeld(p)
	in.preempt()
}

// checkGuard enforces verif_guarded declarations: an access to a guarded slot
// without holding its mutex is a violation.
func (in *Interp) checkGuard(p *Value) {
	if len(in.guarded) == 0 {
		return
	}
	mu, ok := in.guarded[p]
	if !ok {
		return
	}
	for _, h := range in.heldLocks[in.cur] {
		if h == mu {
			return
		}
	}
	in.recordViolation("lockset: guarded field accessed without its mutex", "assert", "")
}

// scheduling options, switchable per path by the harness (verif_sched_explore)
func (in *Interp) schedExplore() bool { return in.cfg.SchedExplore && !in.schedOff }
func (in *Interp) preemptSync() bool  { return in.cfg.PreemptSync && !in.schedOff }
