package main

import (
	"fmt"
)

// Ideal cryptography.
//
// AEAD (chacha20poly1305): Seal returns fresh ciphertext symbols that do not
// depend on the plaintext (IND) and records (key, nonce, ciphertext) ->
// plaintext; Open succeeds only for a recorded triple (INT-CTXT). Ciphertexts of
// different Seal calls are distinct (their last tag byte is the concrete seal
// index).
// X25519: uninterpreted DH with DH(a, Base(b)) == DH(b, Base(a)); honest
// exchanges are non-zero. HKDF: uninterpreted and injective in (secret, salt).
// Ed25519 Verify, bcrypt compare, SHA-256: uninterpreted.

type aeadObj struct{ key []*Term }

type sealRec struct {
	key, nonce, ct []*Term
	pt             []Value
	id             int
}

type hkdfObj struct {
	out *Term // 256-bit
	pos int
}

type dhRec struct{ a, b, out *Term }

type hkdfRec struct {
	in  []*Term
	out *Term
}

func (in *Interp) sliceTerms(v Value) []*Term {
	s := v.(SliceV)
	ts := make([]*Term, s.n)
	for i := range ts {
		ts[i] = s.a[s.off+i].(*Term)
	}
	return ts
}

func (in *Interp) arrTerms(p Value) []*Term {
	arr := (*p.(*Value)).(Array)
	ts := make([]*Term, len(arr))
	for i := range ts {
		ts[i] = arr[i].(*Term)
	}
	return ts
}

func (in *Interp) pack(bs []*Term) *Term {
	// bytes that are the consecutive extracts of one wide term pack back to that term
	if b0 := bs[0]; b0.op == OpExtract {
		base := b0.args[0]
		if base.w == 8*len(bs) {
			all := true
			for i, b := range bs {
				hi := base.w - 1 - 8*i
				if b.op != OpExtract || b.args[0] != base || int(b.k>>16) != hi || int(b.k&0xffff) != hi-7 {
					all = false
					break
				}
			}
			if all {
				return base
			}
		}
	}
	t := bs[0]
	for _, b := range bs[1:] {
		t = in.tc.Concat(t, b)
	}
	return t
}

func (in *Interp) unpack(t *Term, n int) []*Term {
	out := make([]*Term, n)
	for i := 0; i < n; i++ {
		hi := t.w - 1 - 8*i
		out[i] = in.tc.Extract(t, hi, hi-7)
	}
	return out
}

func (in *Interp) termsEq(a, b []*Term) *Term {
	if len(a) != len(b) {
		return in.tc.tFalse
	}
	r := in.tc.tTrue
	for i := range a {
		r = in.tc.And(r, in.tc.Eq(a[i], b[i]))
	}
	return r
}

func init() {
	intrinsics["golang.org/x/crypto/chacha20poly1305.New"] = func(in *Interp, fr *frame, a []Value) Value {
		key := in.sliceTerms(a[0])
		if len(key) != 32 {
			return Tuple{Iface{}, in.newError("chacha20poly1305: bad key length")}
		}
		return Tuple{Iface{t: nativeObjType, v: &Native{kind: "aead", v: &aeadObj{key: key}}}, Iface{}}
	}
	nativeMethods["aead.NonceSize"] = func(in *Interp, fr *frame, a []Value) Value { return in.lenTerm(12) }
	nativeMethods["aead.Overhead"] = func(in *Interp, fr *frame, a []Value) Value { return in.lenTerm(16) }
	nativeMethods["aead.Seal"] = func(in *Interp, fr *frame, a []Value) Value {
		obj := a[0].(*Native).v.(*aeadObj)
		dst := a[1].(SliceV)
		nonce := in.sliceTerms(a[2])
		pt := bytesOf(a[3].(SliceV))
		if len(nonce) != 12 {
			panic(targetPanic{in.newError("chacha20poly1305: bad nonce length passed to Seal")})
		}
		in.sealSeq++
		id := in.sealSeq
		ct := make([]*Term, len(pt)+16)
		for i := range ct {
			ct[i] = in.tc.Var(fmt.Sprintf("ct%d_%d", id, i), 8)
		}
		ct[len(ct)-1] = in.tc.BV(8, uint64(id))
		in.seals = append(in.seals, &sealRec{key: obj.key, nonce: nonce, ct: ct, pt: pt, id: id})
		if in.sealHook != nil {
			in.call(fr, 0, in.sealHook, []Value{a[2], a[3]})
		}
		out := make([]Value, 0, dst.n+len(ct))
		out = append(out, dst.a[dst.off:dst.off+dst.n]...)
		for _, c := range ct {
			out = append(out, c)
		}
		return SliceV{a: out, n: len(out), c: len(out)}
	}
	nativeMethods["aead.Open"] = func(in *Interp, fr *frame, a []Value) Value {
		obj := a[0].(*Native).v.(*aeadObj)
		dst := a[1].(SliceV)
		nonce := in.sliceTerms(a[2])
		ct := in.sliceTerms(a[3])
		if len(nonce) != 12 {
			panic(targetPanic{in.newError("chacha20poly1305: bad nonce length passed to Open")})
		}
		fail := Tuple{SliceV{nil: true}, in.newError("chacha20poly1305: message authentication failed")}
		if len(ct) < 16 {
			return fail
		}
		if in.openOracle != nil {
			// harness-supplied necessary condition for authenticity (inductive harnesses)
			ok := in.call(fr, 0, in.openOracle, []Value{a[2], a[3]}).(*Term)
			if !in.branch(ok) {
				return fail
			}
			out := append([]Value{}, dst.a[dst.off:dst.off+dst.n]...)
			for i := 0; i < len(ct)-16; i++ {
				out = append(out, in.nondet("env_u8", 8))
			}
			return Tuple{SliceV{a: out, n: len(out), c: len(out)}, Iface{}}
		}
		for _, rec := range in.seals {
			if len(rec.ct) != len(ct) {
				continue
			}
			c := in.tc.And(in.termsEq(rec.key, obj.key), in.tc.And(in.termsEq(rec.nonce, nonce), in.termsEq(rec.ct, ct)))
			if in.branch(c) {
				out := append([]Value{}, dst.a[dst.off:dst.off+dst.n]...)
				out = append(out, rec.pt...)
				return Tuple{SliceV{a: out, n: len(out), c: len(out)}, Iface{}}
			}
		}
		return fail
	}
	harnessIntrinsics["verif_aead_open_oracle"] = func(in *Interp, fr *frame, a []Value) Value {
		in.openOracle = a[0]
		return nil
	}
	harnessIntrinsics["verif_aead_seal_hook"] = func(in *Interp, fr *frame, a []Value) Value {
		in.sealHook = a[0]
		return nil
	}
	harnessIntrinsics["verif_aead_seals"] = func(in *Interp, fr *frame, a []Value) Value {
		return in.lenTerm(len(in.seals))
	}

	nativeMethods["randreader.Read"] = func(in *Interp, fr *frame, a []Value) Value {
		buf := a[1].(SliceV)
		for i := 0; i < buf.n; i++ {
			buf.a[buf.off+i] = in.nondet("env_u8", 8)
		}
		return Tuple{in.lenTerm(buf.n), Iface{}}
	}

	// X25519
	intrinsics["golang.org/x/crypto/curve25519.ScalarBaseMult"] = func(in *Interp, fr *frame, a []Value) Value {
		sc := in.pack(in.arrTerms(a[1]))
		pub := in.tc.App("x25519_base", 256, sc)
		in.sol.Assert(in.tc.Not(in.tc.Eq(pub, in.zero256()))) // honest public keys are non-zero
		if !sc.IsConst() {
			in.sol.Assert(in.tc.Not(in.tc.Eq(sc, in.zero256()))) // a freshly generated scalar is not all-zero
		}
		in.storeArr(a[0], in.unpack(pub, 32))
		return nil
	}
	intrinsics["golang.org/x/crypto/curve25519.ScalarMult"] = func(in *Interp, fr *frame, a []Value) Value {
		sc := in.pack(in.arrTerms(a[1]))
		pt := in.pack(in.arrTerms(a[2]))
		in.storeArr(a[0], in.unpack(in.dh(sc, pt), 32))
		return nil
	}
	intrinsics["golang.org/x/crypto/curve25519.X25519"] = func(in *Interp, fr *frame, a []Value) Value {
		sc := in.pack(in.sliceTerms(a[0]))
		pt := in.pack(in.sliceTerms(a[1]))
		var r *Term
		if bp, ok := in.isBasepoint(a[1]); ok && bp {
			r = in.tc.App("x25519_base", 256, sc)
		} else {
			r = in.dh(sc, pt)
		}
		bs := in.unpack(r, 32)
		out := make([]Value, 32)
		for i := range out {
			out[i] = bs[i]
		}
		return Tuple{SliceV{a: out, n: 32, c: 32}, Iface{}}
	}

	// HKDF
	intrinsics["golang.org/x/crypto/hkdf.New"] = func(in *Interp, fr *frame, a []Value) Value {
		secret := in.sliceTerms(a[1])
		salt := in.sliceTerms(a[2])
		info := in.sliceTerms(a[3])
		args := []*Term{in.pack(secret)}
		if len(salt) > 0 {
			args = append(args, in.pack(salt))
		}
		if len(info) > 0 {
			args = append(args, in.pack(info))
		}
		name := fmt.Sprintf("hkdf_%d_%d_%d", len(secret), len(salt), len(info))
		out := in.tc.App(name, 256, args...)
		// injectivity (collision resistance) against earlier applications of the same shape
		for _, r := range in.hkdfs {
			if len(r.in) != len(args) {
				continue
			}
			same := true
			eq := in.tc.tTrue
			for i := range args {
				if r.in[i].w != args[i].w {
					same = false
					break
				}
				eq = in.tc.And(eq, in.tc.Eq(r.in[i], args[i]))
			}
			if same && r.out.name == name {
				in.sol.Assert(in.tc.Implies(in.tc.Eq(r.out, out), eq))
			}
		}
		in.hkdfs = append(in.hkdfs, &hkdfRec{in: args, out: out})
		return Iface{t: nativeObjType, v: &Native{kind: "hkdf", v: &hkdfObj{out: out}}}
	}
	nativeMethods["hkdf.Read"] = func(in *Interp, fr *frame, a []Value) Value {
		h := a[0].(*Native).v.(*hkdfObj)
		buf := a[1].(SliceV)
		if h.pos+buf.n > 32 {
			in.unsupported("hkdf: more than 32 bytes of output requested")
		}
		bs := in.unpack(h.out, 32)
		for i := 0; i < buf.n; i++ {
			buf.a[buf.off+i] = bs[h.pos+i]
		}
		h.pos += buf.n
		return Tuple{in.lenTerm(buf.n), Iface{}}
	}

	// SHA-256 (uninterpreted, per input length)
	intrinsics["crypto/sha256.Sum256"] = func(in *Interp, fr *frame, a []Value) Value {
		data := in.sliceTerms(a[0])
		var out *Term
		if len(data) == 0 {
			out = in.tc.App("sha256_empty", 256)
		} else {
			out = in.tc.App(fmt.Sprintf("sha256_%d", len(data)), 256, in.pack(data))
		}
		bs := in.unpack(out, 32)
		arr := make(Array, 32)
		for i := range arr {
			arr[i] = bs[i]
		}
		return arr
	}

	// Ed25519 verification: uninterpreted predicate valid(pub, msg, sig)
	intrinsics["crypto/ed25519.Verify"] = func(in *Interp, fr *frame, a []Value) Value {
		pub := in.sliceTerms(a[0])
		msg := in.sliceTerms(a[1])
		sig := in.sliceTerms(a[2])
		if len(pub) != 32 {
			panic(targetPanic{in.newError("ed25519: bad public key length")})
		}
		if len(sig) != 64 {
			return in.tc.tFalse
		}
		if len(msg) == 0 {
			return in.tc.App("ed25519_valid_0", WBool, in.pack(pub), in.pack(sig))
		}
		return in.tc.App(fmt.Sprintf("ed25519_valid_%d", len(msg)), WBool, in.pack(pub), in.pack(msg), in.pack(sig))
	}
	intrinsics["golang.org/x/crypto/bcrypt.CompareHashAndPassword"] = func(in *Interp, fr *frame, a []Value) Value {
		h := in.sliceTerms(a[0])
		p := in.sliceTerms(a[1])
		var args []*Term
		if len(h) > 0 {
			args = append(args, in.pack(h))
		}
		if len(p) > 0 {
			args = append(args, in.pack(p))
		}
		// a stored hash may be malformed (too short, bad prefix/cost): a third outcome, an error
		// that is not ErrMismatchedHashAndPassword
		var hargs []*Term
		if len(h) > 0 {
			hargs = append(hargs, in.pack(h))
		}
		bad := in.tc.App(fmt.Sprintf("bcrypt_malformed_%d", len(h)), WBool, hargs...)
		if in.branch(bad) {
			return in.newError("crypto/bcrypt: hashedSecret too short to be a bcrypted password")
		}
		ok := in.tc.App(fmt.Sprintf("bcrypt_ok_%d_%d", len(h), len(p)), WBool, args...)
		if in.branch(ok) {
			return Iface{}
		}
		if pkg := in.prog.ImportedPackage("golang.org/x/crypto/bcrypt"); pkg != nil {
			if g := pkg.Var("ErrMismatchedHashAndPassword"); g != nil {
				return *in.globalAddr(g)
			}
		}
		return in.newError("crypto/bcrypt: hashedPassword is not the hash of the given password")
	}
}

func (in *Interp) storeArr(p Value, bs []*Term) {
	ptr := p.(*Value)
	arr := make(Array, len(bs))
	for i := range bs {
		arr[i] = bs[i]
	}
	*ptr = arr
}

func (in *Interp) isBasepoint(v Value) (bool, bool) {
	s, ok := v.(SliceV)
	if !ok || s.n != 32 {
		return false, false
	}
	for i := 0; i < 32; i++ {
		t := s.a[s.off+i].(*Term)
		if !t.IsConst() {
			return false, true
		}
		want := uint64(0)
		if i == 0 {
			want = 9
		}
		if t.k != want {
			return false, true
		}
	}
	return true, true
}

// dh models X25519(scalar, point). If point is Base(x) syntactically, the
// result is the symmetric function DHs(scalar, x) (argument order canonical),
// which gives DH(a, Base(b)) == DH(b, Base(a)); honest results are non-zero.
func (in *Interp) dh(sc, pt *Term) *Term {
	tc := in.tc
	if pt.op == OpApp && pt.name == "x25519_base" {
		x := pt.args[0]
		a, b := sc, x
		if a.id > b.id {
			a, b = b, a
		}
		r := tc.App("x25519_dh_honest", 256, a, b)
		in.sol.Assert(tc.Not(tc.Eq(r, in.zero256())))
		// ideal DH: two honest exchanges give the same secret only for the same pair of scalars
		for _, e := range in.dhApps {
			if e.out == r {
				continue
			}
			same := tc.Or(tc.And(tc.Eq(e.a, a), tc.Eq(e.b, b)), tc.And(tc.Eq(e.a, b), tc.Eq(e.b, a)))
			in.sol.Assert(tc.Implies(tc.Eq(e.out, r), same))
		}
		in.dhApps = append(in.dhApps, dhRec{a, b, r})
		return r
	}
	return tc.App("x25519_dh_raw", 256, sc, pt)
}

func (in *Interp) zero256() *Term {
	z := in.tc.BV(64, 0)
	return in.tc.Concat(in.tc.Concat(z, z), in.tc.Concat(z, z))
}
