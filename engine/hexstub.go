package main

// encoding/hex closed forms (no forks per character).
func init() {
	hexDigit := func(in *Interp, n *Term) *Term { // n: 8-bit value < 16
		tc := in.tc
		return tc.Ite(tc.Lt(n, tc.BV(8, 10), false), tc.Add(n, tc.BV(8, '0')), tc.Add(n, tc.BV(8, 'a'-10)))
	}
	intrinsics["encoding/hex.EncodeToString"] = func(in *Interp, fr *frame, a []Value) Value {
		tc := in.tc
		bs := in.sliceTerms(a[0])
		out := make([]*Term, 0, 2*len(bs))
		for _, b := range bs {
			out = append(out, hexDigit(in, tc.bin(OpLShr, b, tc.BV(8, 4))), hexDigit(in, tc.bin(OpAnd, b, tc.BV(8, 15))))
		}
		return &StrV{b: out}
	}
	intrinsics["encoding/hex.DecodeString"] = func(in *Interp, fr *frame, a []Value) Value {
		tc := in.tc
		s := a[0].(*StrV)
		if s.op != nil {
			in.unsupported("hex.DecodeString of opaque string")
		}
		val := func(c *Term) (*Term, *Term) {
			isDig := tc.And(tc.Le(tc.BV(8, '0'), c, false), tc.Le(c, tc.BV(8, '9'), false))
			isLo := tc.And(tc.Le(tc.BV(8, 'a'), c, false), tc.Le(c, tc.BV(8, 'f'), false))
			isUp := tc.And(tc.Le(tc.BV(8, 'A'), c, false), tc.Le(c, tc.BV(8, 'F'), false))
			v := tc.Ite(isDig, tc.Sub(c, tc.BV(8, '0')), tc.Ite(isLo, tc.Sub(c, tc.BV(8, 'a'-10)), tc.Sub(c, tc.BV(8, 'A'-10))))
			return v, tc.Or(isDig, tc.Or(isLo, isUp))
		}
		n := len(s.b) / 2
		out := make([]Value, n)
		valid := tc.tTrue
		for i := 0; i < n; i++ {
			hi, ok1 := val(s.b[2*i])
			lo, ok2 := val(s.b[2*i+1])
			valid = tc.And(valid, tc.And(ok1, ok2))
			out[i] = tc.bin(OpOr, tc.bin(OpShl, hi, tc.BV(8, 4)), lo)
		}
		if !in.branch(valid) {
			return Tuple{SliceV{nil: true}, in.newError("encoding/hex: invalid byte")}
		}
		if len(s.b)%2 == 1 {
			return Tuple{SliceV{a: out, n: n, c: n}, in.newError("encoding/hex: odd length hex string")}
		}
		return Tuple{SliceV{a: out, n: n, c: n}, Iface{}}
	}
}
