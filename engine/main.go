package main

// symgo: bounded symbolic execution of Go SSA with an SMT back end.
// Usage: symgo -config cfg.json   (see Config)

import (
	"encoding/json"
	"flag"
	"fmt"
	"go/types"
	"os"
	"path/filepath"
	"strings"
	"sync/atomic"
	"time"

	"golang.org/x/tools/go/packages"
	"golang.org/x/tools/go/ssa"
	"golang.org/x/tools/go/ssa/ssautil"
)

var statQueries, statSolverNS, statUnknowns, statFallbacks atomic.Int64

func errorType() types.Type { return types.Universe.Lookup("error").Type() }

type Output struct {
	Pkg       string           `json:"pkg"`
	LoadMS    int64            `json:"load_ms"`
	Packages  int              `json:"packages_loaded"`
	Results   []*HarnessResult `json:"results"`
	Error     string           `json:"error,omitempty"`
	Config    *Config          `json:"config"`
	SrcDigest string           `json:"src_digest,omitempty"`
}

func main() {
	cfgPath := flag.String("config", "", "config json")
	flag.Parse()
	cfg := &Config{}
	if *cfgPath != "" {
		b, err := os.ReadFile(*cfgPath)
		if err != nil {
			fatal(err)
		}
		if err := json.Unmarshal(b, cfg); err != nil {
			fatal(err)
		}
	}
	defaults(cfg)
	out := &Output{Pkg: cfg.Pkg, Config: cfg}
	t0 := time.Now()
	prog, pkg, npk, err := load(cfg)
	out.LoadMS = time.Since(t0).Milliseconds()
	out.Packages = npk
	if err != nil {
		out.Error = err.Error()
		writeOut(cfg, out)
		os.Exit(3)
	}
	for _, h := range cfg.Harnesses {
		r := explore(prog, pkg, cfg, h)
		out.Results = append(out.Results, r)
		fmt.Fprintf(os.Stderr, "[symgo] %s: paths=%d ends=%v queries=%d solver=%dms wall=%dms viol=%d inconclusive=%v\n",
			h, r.Paths, r.Ends, r.Queries, r.SolverMS, r.WallMS, len(r.Violations), r.Inconclusive)
	}
	writeOut(cfg, out)
}

func fatal(err error) {
	fmt.Fprintln(os.Stderr, "symgo:", err)
	os.Exit(3)
}

func writeOut(cfg *Config, out *Output) {
	b, _ := json.MarshalIndent(out, "", " ")
	if cfg.Out == "" {
		os.Stdout.Write(b)
		return
	}
	os.WriteFile(cfg.Out, b, 0o644)
}

func defaults(c *Config) {
	if c.Repo == "" {
		c.Repo = "/repo"
	}
	if c.ModulePath == "" {
		c.ModulePath = "github.com/postalsys/muti-metroo"
	}
	if c.Unwind == 0 {
		c.Unwind = 40
	}
	if c.MaxDecisions == 0 {
		c.MaxDecisions = 4000
	}
	if c.StepBudget == 0 {
		c.StepBudget = 20_000_000
	}
	if c.ConcLimit == 0 {
		c.ConcLimit = 64
	}
	if c.MaxAlloc == 0 {
		c.MaxAlloc = 1 << 22
	}
	if c.SymIdxMax == 0 {
		c.SymIdxMax = 256
	}
	if c.Workers == 0 {
		c.Workers = 16
	}
	if c.TimeoutMS == 0 {
		c.TimeoutMS = 30000
	}
}

func load(cfg *Config) (*ssa.Program, *ssa.Package, int, error) {
	overlay := map[string][]byte{}
	pkgName := ""
	pkgDir := filepath.Join(cfg.Repo, strings.TrimPrefix(cfg.Pkg, "./"))
	for _, d := range cfg.OverlayDirs {
		ents, err := os.ReadDir(d)
		if err != nil {
			return nil, nil, 0, err
		}
		for _, e := range ents {
			n := e.Name()
			if !strings.HasSuffix(n, ".go") || strings.HasSuffix(n, "_native.go") || strings.HasSuffix(n, "_test.go") {
				continue
			}
			b, err := os.ReadFile(filepath.Join(d, n))
			if err != nil {
				return nil, nil, 0, err
			}
			overlay[filepath.Join(pkgDir, n)] = b
			if pkgName == "" {
				for _, line := range strings.Split(string(b), "\n") {
					if strings.HasPrefix(line, "package ") {
						pkgName = strings.TrimSpace(strings.TrimPrefix(line, "package "))
						break
					}
				}
			}
		}
	}
	for _, eo := range cfg.ExtraOverlays {
		ents, err := os.ReadDir(eo.Dir)
		if err != nil {
			return nil, nil, 0, err
		}
		for _, e := range ents {
			n := e.Name()
			if !strings.HasSuffix(n, ".go") || strings.HasSuffix(n, "_test.go") {
				continue
			}
			if len(eo.Files) > 0 {
				keep := false
				for _, f := range eo.Files {
					keep = keep || f == n
				}
				if !keep {
					continue
				}
			}
			b, err := os.ReadFile(filepath.Join(eo.Dir, n))
			if err != nil {
				return nil, nil, 0, err
			}
			overlay[filepath.Join(cfg.Repo, strings.TrimPrefix(eo.Pkg, "./"), n)] = b
		}
	}
	if pkgName != "" {
		lib := cfg.LibDir
		if lib == "" {
			lib = "/verif/harness/_lib"
		}
		tmpl, err := os.ReadFile(filepath.Join(lib, "decl.go.tmpl"))
		if err != nil {
			return nil, nil, 0, err
		}
		overlay[filepath.Join(pkgDir, "zz_verif_decl.go")] = []byte(strings.Replace(string(tmpl), "PKGNAME", pkgName, 1))
	}
	pc := &packages.Config{
		Mode:    packages.LoadAllSyntax,
		Dir:     cfg.Repo,
		Overlay: overlay,
		Env:     append(os.Environ(), "GOFLAGS=-mod=mod", "GOPROXY=off", "GOTOOLCHAIN=auto", "CGO_ENABLED=0"),
	}
	initial, err := packages.Load(pc, cfg.Pkg)
	if err != nil {
		return nil, nil, 0, err
	}
	var errs []string
	packages.Visit(initial, nil, func(p *packages.Package) {
		for _, e := range p.Errors {
			errs = append(errs, e.Error())
		}
	})
	if len(errs) > 0 {
		if len(errs) > 10 {
			errs = errs[:10]
		}
		return nil, nil, 0, fmt.Errorf("package errors: %s", strings.Join(errs, "; "))
	}
	prog, pkgs := ssautil.AllPackages(initial, ssa.InstantiateGenerics)
	prog.Build()
	n := 0
	packages.Visit(initial, nil, func(p *packages.Package) { n++ })
	if len(pkgs) == 0 || pkgs[0] == nil {
		return nil, nil, n, fmt.Errorf("no SSA package for %s", cfg.Pkg)
	}
	return prog, pkgs[0], n, nil
}
