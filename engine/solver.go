package main

import (
	"bufio"
	"fmt"
	"io"
	"os"
	"os/exec"
	"strings"
	"time"
)

// Solver wraps one long-lived `z3 -in` process. Terms are emitted as
// define-fun's so shared subterms stay linear in size. All definitions and
// assertions of the current path are kept in `log` so that a query that stays
// unknown can be re-run on the fall-back solvers.

type Solver struct {
	cmd     *exec.Cmd
	in      io.WriteCloser
	out     *bufio.Reader
	ctx     *TermCtx
	defined map[int]bool
	declVar map[string]bool
	declUF  map[string]bool
	scopes  []scopeMark
	log     []string // transcript of current path (without check-sat)
	logMark []int

	Queries   int
	Unknowns  int
	SolverNS  int64
	Fallbacks int
	timeoutMS int
	bin       string
	dump      io.Writer
	deflog    []defEntry
}

type defEntry struct {
	kind int // 0 term id, 1 var, 2 uf
	id   int
	name string
}

type scopeMark struct{ n int }

func NewSolver(timeoutMS int, bin string) (*Solver, error) {
	s := &Solver{timeoutMS: timeoutMS, bin: bin}
	if err := s.start(); err != nil {
		return nil, err
	}
	return s, nil
}

func (s *Solver) start() error {
	bin := s.bin
	if bin == "" {
		bin = os.Getenv("SYMGO_Z3")
	}
	if bin == "" {
		bin = "z3-new" // z3 5.1.0: markedly faster than 4.8.12 on these queries; 4.8.12 and cvc5 are the fall-backs
	}
	s.bin = bin
	cmd := exec.Command(bin, "-in", fmt.Sprintf("-t:%d", s.timeoutMS))
	in, err := cmd.StdinPipe()
	if err != nil {
		return err
	}
	out, err := cmd.StdoutPipe()
	if err != nil {
		return err
	}
	cmd.Stderr = os.Stderr
	if err := cmd.Start(); err != nil {
		return err
	}
	s.cmd, s.in, s.out = cmd, in, bufio.NewReaderSize(out, 1<<16)
	s.send("(set-option :print-success false)")
	return nil
}

func (s *Solver) Close() {
	if s.cmd != nil {
		s.in.Close()
		s.cmd.Process.Kill()
		s.cmd.Wait()
		s.cmd = nil
	}
}

func (s *Solver) send(line string) {
	if s.dump != nil {
		fmt.Fprintln(s.dump, line)
	}
	io.WriteString(s.in, line)
	io.WriteString(s.in, "\n")
}

func (s *Solver) record(line string) {
	s.log = append(s.log, line)
	s.send(line)
}

// BeginPath resets solver state for a new path with a fresh term context.
func (s *Solver) BeginPath(ctx *TermCtx) {
	s.ctx = ctx
	s.defined = map[int]bool{}
	s.declVar = map[string]bool{}
	s.declUF = map[string]bool{}
	s.log = s.log[:0]
	s.deflog = s.deflog[:0]
	s.scopes = s.scopes[:0]
	s.send("(reset)")
	s.send("(set-option :print-success false)")
}

func (s *Solver) push() {
	s.scopes = append(s.scopes, scopeMark{n: len(s.deflog)})
	s.logMark = append(s.logMark, len(s.log))
	s.send("(push 1)")
}

func (s *Solver) pop() {
	m := s.scopes[len(s.scopes)-1]
	s.scopes = s.scopes[:len(s.scopes)-1]
	for _, d := range s.deflog[m.n:] {
		switch d.kind {
		case 0:
			delete(s.defined, d.id)
		case 1:
			delete(s.declVar, d.name)
		case 2:
			delete(s.declUF, d.name)
		}
	}
	s.deflog = s.deflog[:m.n]
	lm := s.logMark[len(s.logMark)-1]
	s.logMark = s.logMark[:len(s.logMark)-1]
	s.log = s.log[:lm]
	s.send("(pop 1)")
}

// define emits definitions for t's subterm DAG (iteratively, post-order).
func (s *Solver) define(t *Term) {
	type item struct {
		t    *Term
		done bool
	}
	stack := []item{{t, false}}
	for len(stack) > 0 {
		it := stack[len(stack)-1]
		stack = stack[:len(stack)-1]
		u := it.t
		switch u.op {
		case OpConst:
			continue
		case OpVar:
			if !s.declVar[u.name] {
				s.declVar[u.name] = true
				s.deflog = append(s.deflog, defEntry{kind: 1, name: u.name})
				s.record(fmt.Sprintf("(declare-const %s %s)", u.name, sortStr(u.w)))
			}
			continue
		}
		if s.defined[u.id] {
			continue
		}
		if !it.done {
			stack = append(stack, item{u, true})
			for _, a := range u.args {
				if a.op == OpConst {
					continue
				}
				if a.op != OpVar && s.defined[a.id] {
					continue
				}
				stack = append(stack, item{a, false})
			}
			continue
		}
		if decl, isUF := s.ctx.ufs[u.name]; u.op == OpApp && isUF && decl != "" && !s.declUF[u.name] {
			s.declUF[u.name] = true
			s.deflog = append(s.deflog, defEntry{kind: 2, name: u.name})
			s.record(s.ctx.ufs[u.name])
		}
		s.defined[u.id] = true
		s.deflog = append(s.deflog, defEntry{kind: 0, id: u.id})
		s.record(fmt.Sprintf("(define-fun t%d () %s %s)", u.id, sortStr(u.w), u.body()))
	}
}

func (s *Solver) Assert(t *Term) {
	if t.IsTrue() {
		return
	}
	s.define(t)
	s.record("(assert " + t.ref() + ")")
}

type SatResult int

const (
	Unsat SatResult = iota
	Sat
	Unknown
)

func (r SatResult) String() string { return [...]string{"unsat", "sat", "unknown"}[r] }

func (s *Solver) readLine() string {
	line, err := s.out.ReadString('\n')
	if err != nil {
		return "(error \"solver died: " + err.Error() + "\")"
	}
	return strings.TrimSpace(line)
}

// Check: is (current assertions ∧ extra) satisfiable? If keep is true the
// solver stays in the pushed scope (for model extraction) and the caller must
// call EndCheck.
func (s *Solver) Check(extra *Term, keep bool) SatResult {
	if extra != nil {
		if extra.IsFalse() {
			return Unsat
		}
		s.define(extra)
	}
	s.push()
	if extra != nil && !extra.IsTrue() {
		s.record("(assert " + extra.ref() + ")")
	}
	s.Queries++
	t0 := time.Now()
	s.send("(check-sat)")
	ans := s.readLine()
	s.SolverNS += time.Since(t0).Nanoseconds()
	res := Unknown
	switch ans {
	case "sat":
		res = Sat
	case "unsat":
		res = Unsat
	default:
		if strings.HasPrefix(ans, "(error") {
			fmt.Fprintf(os.Stderr, "solver error: %s\n", ans)
			// drain? errors are single-line in z3
		}
		res = s.fallback()
		if res == Unknown {
			s.Unknowns++
		}
	}
	if !(keep && res == Sat) {
		s.pop()
	}
	return res
}

func (s *Solver) EndCheck() { s.pop() }

// fallback runs the transcript of the current scope on the other solvers.
func (s *Solver) fallback() SatResult {
	s.Fallbacks++
	script := strings.Join(s.log, "\n") + "\n(check-sat)\n"
	try := func(name string, args ...string) SatResult {
		cmd := exec.Command(name, args...)
		cmd.Stdin = strings.NewReader(script)
		out, _ := cmd.Output()
		txt := strings.TrimSpace(string(out))
		if strings.Contains(txt, "(error") {
			return Unknown
		}
		switch {
		case strings.HasSuffix(txt, "unsat"):
			return Unsat
		case strings.HasSuffix(txt, "sat"):
			return Sat
		}
		return Unknown
	}
	to := fmt.Sprintf("%d", s.timeoutMS*3)
	other := "z3-new"
	if s.bin == "z3-new" {
		other = "z3"
	}
	if r := try(other, "-in", "-t:"+to); r != Unknown {
		return r
	}
	if r := try("cvc5", "--lang=smt2", "--tlimit="+to, "--incremental"); r != Unknown {
		return r
	}
	return Unknown
}

// GetValues returns the model values of the given terms (solver must be in a
// kept Sat state).
func (s *Solver) GetValues(ts []*Term) []uint64 {
	res := make([]uint64, len(ts))
	// ask in chunks
	for i := 0; i < len(ts); i++ {
		t := ts[i]
		if t.IsConst() {
			res[i] = t.k
			continue
		}
		s.defineNoLog(t)
		s.send("(get-value (" + t.ref() + "))")
		txt := s.readSexp()
		res[i] = parseValue(txt, t.w)
	}
	return res
}

// defineNoLog defines helper terms after a sat answer; z3 allows definitions
// after check-sat and keeps the model for get-value only if no assert follows.
// To stay safe, terms needing fresh definitions are evaluated through an
// inline expansion instead.
func (s *Solver) defineNoLog(t *Term) {
	// all subterms that are not yet defined get defined; z3 keeps the model
	// valid across define-fun (no new assertions).
	s.define(t)
}

func (s *Solver) readSexp() string {
	var sb strings.Builder
	depth := 0
	started := false
	for {
		b, err := s.out.ReadByte()
		if err != nil {
			return sb.String()
		}
		sb.WriteByte(b)
		if b == '(' {
			depth++
			started = true
		} else if b == ')' {
			depth--
		}
		if started && depth == 0 {
			// consume rest of line
			s.out.ReadString('\n')
			return sb.String()
		}
		if !started && b == '\n' {
			if strings.TrimSpace(sb.String()) != "" {
				return sb.String()
			}
			sb.Reset()
		}
	}
}

// parseValue extracts the value from "((name value))".
func parseValue(txt string, w int) uint64 {
	txt = strings.TrimSpace(txt)
	// find last token(s)
	if w == WBool {
		if strings.Contains(txt, " true)") {
			return 1
		}
		return 0
	}
	if i := strings.LastIndex(txt, "#x"); i >= 0 {
		j := i + 2
		var v uint64
		for j < len(txt) && isHex(txt[j]) {
			v = v<<4 | uint64(hexVal(txt[j]))
			j++
		}
		return v
	}
	if i := strings.LastIndex(txt, "#b"); i >= 0 {
		j := i + 2
		var v uint64
		for j < len(txt) && (txt[j] == '0' || txt[j] == '1') {
			v = v<<1 | uint64(txt[j]-'0')
			j++
		}
		return v
	}
	if w == WInt {
		// forms: ((t 5)) or ((t (- 5)))
		neg := strings.Contains(txt, "(- ")
		var v uint64
		// take last run of digits
		end := len(txt)
		for end > 0 && !(txt[end-1] >= '0' && txt[end-1] <= '9') {
			end--
		}
		start := end
		for start > 0 && txt[start-1] >= '0' && txt[start-1] <= '9' {
			start--
		}
		for _, ch := range txt[start:end] {
			v = v*10 + uint64(ch-'0')
		}
		if neg {
			return uint64(-int64(v))
		}
		return v
	}
	return 0
}

func isHex(b byte) bool {
	return b >= '0' && b <= '9' || b >= 'a' && b <= 'f' || b >= 'A' && b <= 'F'
}
func hexVal(b byte) int {
	switch {
	case b >= '0' && b <= '9':
		return int(b - '0')
	case b >= 'a' && b <= 'f':
		return int(b-'a') + 10
	}
	return int(b-'A') + 10
}
