package main

import "math"

// math functions on concrete floats run natively (the Go implementations go
// through unsafe bit casts).
func init() {
	f1 := func(name string, f func(float64) float64) {
		intrinsics["math."+name] = func(in *Interp, fr *frame, a []Value) Value {
			return FloatV{f(a[0].(FloatV).f)}
		}
	}
	f2 := func(name string, f func(float64, float64) float64) {
		intrinsics["math."+name] = func(in *Interp, fr *frame, a []Value) Value {
			return FloatV{f(a[0].(FloatV).f, a[1].(FloatV).f)}
		}
	}
	f1("Abs", math.Abs)
	f1("Floor", math.Floor)
	f1("Ceil", math.Ceil)
	f1("Trunc", math.Trunc)
	f1("Round", math.Round)
	f1("Sqrt", math.Sqrt)
	f1("Log", math.Log)
	f1("Log2", math.Log2)
	f1("Log10", math.Log10)
	f1("Exp", math.Exp)
	f2("Pow", math.Pow)
	f2("Max", math.Max)
	f2("Min", math.Min)
	f2("Mod", math.Mod)
	intrinsics["math.IsNaN"] = func(in *Interp, fr *frame, a []Value) Value { return in.tc.Bool(math.IsNaN(a[0].(FloatV).f)) }
	intrinsics["math.IsInf"] = func(in *Interp, fr *frame, a []Value) Value {
		return in.tc.Bool(math.IsInf(a[0].(FloatV).f, int(in.concInt(a[1].(*Term), "IsInf sign"))))
	}
	intrinsics["math.Inf"] = func(in *Interp, fr *frame, a []Value) Value {
		return FloatV{math.Inf(int(in.concInt(a[0].(*Term), "Inf sign")))}
	}
	intrinsics["math.NaN"] = func(in *Interp, fr *frame, a []Value) Value { return FloatV{math.NaN()} }
	intrinsics["math.Float64bits"] = func(in *Interp, fr *frame, a []Value) Value {
		return in.tc.BV(64, math.Float64bits(a[0].(FloatV).f))
	}
	intrinsics["math.Float64frombits"] = func(in *Interp, fr *frame, a []Value) Value {
		t := a[0].(*Term)
		if !t.IsConst() {
			in.unsupported("Float64frombits of symbolic value")
		}
		return FloatV{math.Float64frombits(t.k)}
	}
}
