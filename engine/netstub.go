package main

import (
	"net"
)

// Closed-form models of the net.IP / net.IPNet helpers used by the routing and
// exit code: no forks on address bytes (except where the result's shape
// depends on a symbolic condition, e.g. IP.To4 of a 16-byte address).

func (in *Interp) ipBytes(v Value) ([]*Term, bool) {
	s, ok := v.(SliceV)
	if !ok {
		return nil, true
	}
	if s.nil {
		return nil, true
	}
	ts := make([]*Term, s.n)
	for i := range ts {
		ts[i] = s.a[s.off+i].(*Term)
	}
	return ts, false
}

func (in *Interp) mkByteSlice(ts []*Term) Value {
	a := make([]Value, len(ts))
	for i, t := range ts {
		a[i] = t
	}
	return SliceV{a: a, n: len(a), c: len(a)}
}

// isV4Mapped: term for "16-byte ip is ::ffff:a.b.c.d"
func (in *Interp) isV4Mapped(ip []*Term) *Term {
	tc := in.tc
	c := tc.tTrue
	for i := 0; i < 10; i++ {
		c = tc.And(c, tc.Eq(ip[i], tc.BV(8, 0)))
	}
	c = tc.And(c, tc.Eq(ip[10], tc.BV(8, 0xff)))
	c = tc.And(c, tc.Eq(ip[11], tc.BV(8, 0xff)))
	return c
}

// to4 returns the 4-byte form or nil (forks when the answer is symbolic).
func (in *Interp) to4(ip []*Term) []*Term {
	switch len(ip) {
	case 4:
		return ip
	case 16:
		if in.branch(in.isV4Mapped(ip)) {
			return ip[12:16]
		}
	}
	return nil
}

func (in *Interp) allFF(m []*Term) *Term {
	tc := in.tc
	c := tc.tTrue
	for _, b := range m {
		c = tc.And(c, tc.Eq(b, tc.BV(8, 0xff)))
	}
	return c
}

// maskOnes returns (ones, canonical) for a mask with symbolic bytes: ite chain
// over the canonical masks of that length.
func (in *Interp) maskOnes(m []*Term) (*Term, *Term) {
	tc := in.tc
	bits := 8 * len(m)
	ones := tc.BV(64, 0)
	canon := tc.tFalse
	for k := bits; k >= 0; k-- {
		cm := net.CIDRMask(k, bits)
		eq := tc.tTrue
		for i := range m {
			eq = tc.And(eq, tc.Eq(m[i], tc.BV(8, uint64(cm[i]))))
		}
		ones = tc.Ite(eq, tc.BV(64, uint64(k)), ones)
		canon = tc.Or(canon, eq)
	}
	return ones, canon
}

func init() {
	intrinsics["(net.IP).To4"] = func(in *Interp, fr *frame, a []Value) Value {
		ip, isNil := in.ipBytes(a[0])
		if isNil {
			return SliceV{nil: true}
		}
		r := in.to4(ip)
		if r == nil {
			return SliceV{nil: true}
		}
		if len(ip) == 16 {
			s := a[0].(SliceV)
			return SliceV{a: s.a, off: s.off + 12, n: 4, c: s.c - 12}
		}
		return a[0]
	}
	intrinsics["(net.IP).To16"] = func(in *Interp, fr *frame, a []Value) Value {
		ip, isNil := in.ipBytes(a[0])
		if isNil {
			return SliceV{nil: true}
		}
		switch len(ip) {
		case 16:
			return a[0]
		case 4:
			out := make([]*Term, 16)
			for i := 0; i < 10; i++ {
				out[i] = in.tc.BV(8, 0)
			}
			out[10], out[11] = in.tc.BV(8, 0xff), in.tc.BV(8, 0xff)
			copy(out[12:], ip)
			return in.mkByteSlice(out)
		}
		return SliceV{nil: true}
	}
	intrinsics["(net.IP).Equal"] = func(in *Interp, fr *frame, a []Value) Value {
		x, _ := in.ipBytes(a[0])
		y, _ := in.ipBytes(a[1])
		tc := in.tc
		if len(x) == len(y) {
			return in.termsEq(x, y)
		}
		if len(x) == 4 && len(y) == 16 {
			return tc.And(in.isV4Mapped(y), in.termsEq(x, y[12:]))
		}
		if len(x) == 16 && len(y) == 4 {
			return tc.And(in.isV4Mapped(x), in.termsEq(x[12:], y))
		}
		return tc.tFalse
	}
	intrinsics["(net.IP).IsUnspecified"] = func(in *Interp, fr *frame, a []Value) Value {
		x, _ := in.ipBytes(a[0])
		tc := in.tc
		z := tc.tTrue
		for _, b := range x {
			z = tc.And(z, tc.Eq(b, tc.BV(8, 0)))
		}
		if len(x) == 4 || len(x) == 16 {
			if len(x) == 16 {
				// also 0.0.0.0 in mapped form
				m := tc.And(in.isV4Mapped(x), in.termsEq(x[12:], []*Term{tc.BV(8, 0), tc.BV(8, 0), tc.BV(8, 0), tc.BV(8, 0)}))
				return tc.Or(z, m)
			}
			return z
		}
		return tc.tFalse
	}
	intrinsics["(net.IP).String"] = func(in *Interp, fr *frame, a []Value) Value {
		x, isNil := in.ipBytes(a[0])
		if isNil || len(x) == 0 {
			return in.mkStr("<nil>")
		}
		conc := true
		bs := make([]byte, len(x))
		for i, t := range x {
			if !t.IsConst() {
				conc = false
				break
			}
			bs[i] = byte(t.k)
		}
		if conc {
			return in.mkStr(net.IP(bs).String())
		}
		// canonical form: a mapped or 4-byte address prints the same
		if len(x) == 16 {
			if r := in.to4(x); r != nil {
				x = r
			}
		}
		return in.opaque("ipstr", &StrV{b: x})
	}
	intrinsics["(net.IPMask).Size"] = func(in *Interp, fr *frame, a []Value) Value {
		m, _ := in.ipBytes(a[0])
		conc := true
		bs := make([]byte, len(m))
		for i, t := range m {
			if !t.IsConst() {
				conc = false
				break
			}
			bs[i] = byte(t.k)
		}
		if conc {
			o, b := net.IPMask(bs).Size()
			return Tuple{in.lenTerm(o), in.lenTerm(b)}
		}
		ones, canon := in.maskOnes(m)
		tc := in.tc
		return Tuple{tc.Ite(canon, ones, tc.BV(64, 0)), tc.Ite(canon, tc.BV(64, uint64(8*len(m))), tc.BV(64, 0))}
	}
	intrinsics["(*net.IPNet).Contains"] = func(in *Interp, fr *frame, a []Value) Value {
		p := a[0].(*Value)
		if p == nil {
			in.goPanic("invalid memory address or nil pointer dereference")
		}
		st := (*p).(Struct)
		nip, _ := in.ipBytes(st[0])
		m, _ := in.ipBytes(st[1])
		ip, _ := in.ipBytes(a[1])
		tc := in.tc
		// networkNumberAndMask
		nn := in.to4(nip)
		if nn == nil {
			nn = nip
			if len(nn) != 16 {
				return tc.tFalse
			}
		}
		switch len(m) {
		case 4:
			if len(nn) != 4 {
				return tc.tFalse
			}
		case 16:
			if len(nn) == 4 {
				if !in.branch(in.allFF(m[:12])) {
					return tc.tFalse
				}
				m = m[12:]
			}
		default:
			return tc.tFalse
		}
		if x := in.to4(ip); x != nil {
			ip = x
		}
		if len(ip) != len(nn) {
			return tc.tFalse
		}
		r := tc.tTrue
		for i := range ip {
			r = tc.And(r, tc.Eq(tc.bin(OpAnd, nn[i], m[i]), tc.bin(OpAnd, ip[i], m[i])))
		}
		return r
	}
	intrinsics["(*net.IPNet).String"] = func(in *Interp, fr *frame, a []Value) Value {
		p := a[0].(*Value)
		if p == nil {
			return in.mkStr("<nil>")
		}
		st := (*p).(Struct)
		nip, _ := in.ipBytes(st[0])
		m, _ := in.ipBytes(st[1])
		conc := true
		for _, t := range append(append([]*Term{}, nip...), m...) {
			if !t.IsConst() {
				conc = false
			}
		}
		if conc {
			ib := make([]byte, len(nip))
			mb := make([]byte, len(m))
			for i, t := range nip {
				ib[i] = byte(t.k)
			}
			for i, t := range m {
				mb[i] = byte(t.k)
			}
			return in.mkStr((&net.IPNet{IP: ib, Mask: mb}).String())
		}
		// injective on (address bytes, mask bytes) for canonical networks of one family
		return in.opaque("ipnet", &StrV{b: nip}, &StrV{b: m})
	}
	intrinsics["net.CIDRMask"] = func(in *Interp, fr *frame, a []Value) Value {
		o := int(in.concInt(a[0].(*Term), "CIDRMask ones"))
		b := int(in.concInt(a[1].(*Term), "CIDRMask bits"))
		m := net.CIDRMask(o, b)
		if m == nil {
			return SliceV{nil: true}
		}
		ts := make([]*Term, len(m))
		for i := range m {
			ts[i] = in.tc.BV(8, uint64(m[i]))
		}
		return in.mkByteSlice(ts)
	}
	intrinsics["net.ParseCIDR"] = func(in *Interp, fr *frame, a []Value) Value {
		s := in.concreteStr(a[0], "net.ParseCIDR")
		ip, n, err := net.ParseCIDR(s)
		if err != nil {
			return Tuple{SliceV{nil: true}, (*Value)(nil), in.newError(err.Error())}
		}
		mk := func(b []byte) Value {
			ts := make([]*Term, len(b))
			for i := range b {
				ts[i] = in.tc.BV(8, uint64(b[i]))
			}
			return in.mkByteSlice(ts)
		}
		slot := new(Value)
		*slot = Struct{mk(n.IP), mk(n.Mask)}
		return Tuple{mk(ip), slot, Iface{}}
	}
	intrinsics["net.ParseIP"] = func(in *Interp, fr *frame, a []Value) Value {
		s := in.concreteStr(a[0], "net.ParseIP")
		ip := net.ParseIP(s)
		if ip == nil {
			return SliceV{nil: true}
		}
		ts := make([]*Term, len(ip))
		for i := range ip {
			ts[i] = in.tc.BV(8, uint64(ip[i]))
		}
		return in.mkByteSlice(ts)
	}
	// sockets have no descriptor in the model: closing one and setting deadlines succeed
	for _, m := range []string{"Close", "SetDeadline", "SetReadDeadline", "SetWriteDeadline"} {
		intrinsics["(*net.conn)."+m] = func(in *Interp, fr *frame, a []Value) Value { return Iface{} }
	}
	intrinsics["net.JoinHostPort"] = func(in *Interp, fr *frame, a []Value) Value {
		h, p := a[0].(*StrV), a[1].(*StrV)
		hs, ok1 := h.Concrete()
		ps, ok2 := p.Concrete()
		if ok1 && ok2 {
			return in.mkStr(net.JoinHostPort(hs, ps))
		}
		return in.opaque("hostport", h, p)
	}
}
