package main

import (
	"fmt"
	"go/constant"
	"go/token"
	"go/types"
	"math"
	"unicode/utf8"

	"golang.org/x/tools/go/ssa"
)

func constantBool(c *ssa.Const) bool { return constant.BoolVal(c.Value) }
func constantString(c *ssa.Const) string {
	if c.Value.Kind() == constant.String {
		return constant.StringVal(c.Value)
	}
	return string(rune(c.Int64()))
}

// ---------- decisions ----------

// branch decides a symbolic condition, forking the path if both sides are feasible.
func (in *Interp) branch(cond *Term) bool {
	cond = in.simp(cond)
	if cond.IsTrue() {
		return true
	}
	if cond.IsFalse() {
		return false
	}
	r := in.run
	k := len(r.trace)
	if k < len(r.prefix) {
		d := r.prefix[k]
		r.trace = append(r.trace, d)
		if !d.Forced {
			if d.C == 1 {
				in.sol.Assert(cond)
			} else {
				in.sol.Assert(in.tc.Not(cond))
			}
		}
		in.learnFromCond(cond, d.C == 1)
		return d.C == 1
	}
	if len(r.trace) >= in.cfg.MaxDecisions {
		panic(pathEnd{"budget", "decision budget exceeded"})
	}
	resT := in.sol.Check(cond, false)
	if resT == Unknown {
		panic(pathEnd{"unknown", "solver returned unknown on branch condition"})
	}
	if resT == Unsat {
		r.trace = append(r.trace, Dec{C: 0, Forced: true, Kind: 'b'})
		in.learnFromCond(cond, false)
		return false
	}
	resF := in.sol.Check(in.tc.Not(cond), false)
	if resF == Unknown {
		panic(pathEnd{"unknown", "solver returned unknown on branch condition"})
	}
	if resF == Unsat {
		r.trace = append(r.trace, Dec{C: 1, Forced: true, Kind: 'b'})
		in.learnFromCond(cond, true)
		return true
	}
	// both feasible: take true, queue false
	alt := append(append([]Dec{}, r.trace...), Dec{C: 0, Kind: 'b'})
	r.spawned = append(r.spawned, alt)
	r.trace = append(r.trace, Dec{C: 1, Kind: 'b'})
	in.sol.Assert(cond)
	in.learnFromCond(cond, true)
	return true
}

// learnFromCond records x == const facts implied by a decided condition.
func (in *Interp) learnFromCond(cond *Term, val bool) {
	if cond.op == OpBNot {
		cond, val = cond.args[0], !val
	}
	if val && cond.op == OpEq {
		a, b := cond.args[0], cond.args[1]
		if a.w <= 0 {
			return
		}
		if b.IsConst() {
			in.learn(a, b.k)
		} else if a.IsConst() {
			in.learn(b, a.k)
		}
	}
	if val && cond.op == OpBAnd {
		in.learnFromCond(cond.args[0], true)
		in.learnFromCond(cond.args[1], true)
	}
}

// branchAt is branch with unwinding accounting for the If instruction.
func (in *Interp) branchAt(fr *frame, instr ssa.Instruction, cond *Term) bool {
	if cond.IsConst() {
		return cond.k == 1
	}
	if fr.symVisits == nil {
		fr.symVisits = map[ssa.Instruction]int{}
	}
	fr.symVisits[instr]++
	if fr.symVisits[instr] > in.cfg.Unwind {
		panic(pathEnd{"unwind", fmt.Sprintf("unwinding bound %d exceeded at %s", in.cfg.Unwind, in.posStr(instr.Pos()))})
	}
	return in.branch(cond)
}

// choose forks over n alternatives without consulting the solver.
func (in *Interp) choose(n int) int {
	if n <= 1 {
		return 0
	}
	r := in.run
	k := len(r.trace)
	if k < len(r.prefix) {
		d := r.prefix[k]
		r.trace = append(r.trace, d)
		return d.C
	}
	if len(r.trace) >= in.cfg.MaxDecisions {
		panic(pathEnd{"budget", "decision budget exceeded"})
	}
	for i := 1; i < n; i++ {
		alt := append(append([]Dec{}, r.trace...), Dec{C: i, Kind: 'n'})
		r.spawned = append(r.spawned, alt)
	}
	r.trace = append(r.trace, Dec{C: 0, Kind: 'n'})
	return 0
}

// concretize picks concrete values for t, forking over all feasible ones.
func (in *Interp) concretize(t *Term, what string, limit int) uint64 {
	t = in.simp(t)
	if t.IsConst() {
		return t.k
	}
	r := in.run
	for iter := 0; ; iter++ {
		if iter > limit {
			panic(pathEnd{"unwind", fmt.Sprintf("concretisation of %s has more than %d feasible values", what, limit)})
		}
		k := len(r.trace)
		if k < len(r.prefix) {
			d := r.prefix[k]
			r.trace = append(r.trace, d)
			vt := in.constLike(t, d.Val)
			if d.C == 1 {
				if !d.Forced {
					in.sol.Assert(in.tc.Eq(t, vt))
				}
				if t.w > 0 {
					in.learn(t, d.Val)
				}
				return d.Val
			}
			in.sol.Assert(in.tc.Not(in.tc.Eq(t, vt)))
			continue
		}
		res := in.sol.Check(nil, true)
		if res != Sat {
			if res == Unknown {
				panic(pathEnd{"unknown", "solver unknown during concretisation"})
			}
			panic(pathEnd{"infeasible", "path infeasible at concretisation"})
		}
		v := in.sol.GetValues([]*Term{t})[0]
		in.sol.EndCheck()
		vt := in.constLike(t, v)
		eq := in.tc.Eq(t, vt)
		other := in.sol.Check(in.tc.Not(eq), false)
		if other == Unknown {
			panic(pathEnd{"unknown", "solver unknown during concretisation"})
		}
		if other == Unsat {
			r.trace = append(r.trace, Dec{C: 1, Forced: true, Val: v, Kind: 'c'})
			if t.w > 0 {
				in.learn(t, v)
			}
			return v
		}
		alt := append(append([]Dec{}, r.trace...), Dec{C: 0, Val: v, Kind: 'c'})
		r.spawned = append(r.spawned, alt)
		r.trace = append(r.trace, Dec{C: 1, Val: v, Kind: 'c'})
		in.sol.Assert(eq)
		if t.w > 0 {
			in.learn(t, v)
		}
		return v
	}
}

func (in *Interp) constLike(t *Term, v uint64) *Term {
	if t.w == WInt {
		return in.tc.IntC(int64(v))
	}
	if t.w == WBool {
		return in.tc.Bool(v != 0)
	}
	return in.tc.BV(t.w, v)
}

func (in *Interp) concInt(t *Term, what string) int64 {
	v := in.concretize(t, what, in.cfg.ConcLimit)
	if t.w == WInt {
		return int64(v)
	}
	return sext64(v, t.w)
}

// ---------- unary / binary ----------

func (in *Interp) unop(fr *frame, instr *ssa.UnOp, x Value) Value {
	tc := in.tc
	switch instr.Op {
	case token.ARROW:
		v, ok := in.chanRecv(x.(*ChanV), mustChanElem(instr.X.Type()))
		if instr.CommaOk {
			return Tuple{v, tc.Bool(ok)}
		}
		return v
	case token.SUB:
		switch x := x.(type) {
		case *Term:
			return tc.Neg(x)
		case FloatV:
			return FloatV{-x.f}
		}
	case token.MUL:
		return in.load(x)
	case token.NOT:
		return tc.Not(x.(*Term))
	case token.XOR:
		return tc.NotBV(x.(*Term))
	}
	in.unsupported("unop %v on %T", instr.Op, x)
	return nil
}

func mustChanElem(t types.Type) types.Type {
	return t.Underlying().(*types.Chan).Elem()
}

func (in *Interp) binop(op token.Token, t types.Type, x, y Value, instr ssa.Instruction) Value {
	tc := in.tc
	switch op {
	case token.EQL:
		return in.eq(t, x, y)
	case token.NEQ:
		return tc.Not(in.eq(t, x, y))
	}
	switch xv := x.(type) {
	case *Term:
		yv := y.(*Term)
		signed := isSigned(t)
		if xv.w == WInt && (op == token.ADD || op == token.SUB || op == token.MUL) {
			var r *Term
			switch op {
			case token.ADD:
				r = tc.Add(xv, yv)
			case token.SUB:
				r = tc.Sub(xv, yv)
			default:
				r = tc.Mul(xv, yv)
			}
			if !r.IsConst() {
				in.obligation(tc.And(tc.Le(tc.IntC(-1<<63), r, true), tc.Le(r, tc.IntC(1<<63-1), true)), "int64 overflow in Int-mode arithmetic at "+in.posStr(instr.Pos()))
			}
			return r
		}
		switch op {
		case token.ADD:
			return tc.Add(xv, yv)
		case token.SUB:
			return tc.Sub(xv, yv)
		case token.MUL:
			return tc.Mul(xv, yv)
		case token.QUO, token.REM:
			zero := in.constLike(yv, 0)
			if in.branch(tc.Eq(yv, zero)) {
				in.goPanic("integer divide by zero")
			}
			if xv.w == WInt {
				if op == token.QUO {
					return tc.bin(OpIDivT, xv, yv)
				}
				return tc.bin(OpIRemT, xv, yv)
			}
			if signed {
				if op == token.QUO {
					return tc.bin(OpSDiv, xv, yv)
				}
				return tc.bin(OpSRem, xv, yv)
			}
			if op == token.QUO {
				return tc.bin(OpUDiv, xv, yv)
			}
			return tc.bin(OpURem, xv, yv)
		case token.AND:
			if xv.w == WBool {
				return tc.And(xv, yv)
			}
			return tc.bin(OpAnd, xv, yv)
		case token.OR:
			if xv.w == WBool {
				return tc.Or(xv, yv)
			}
			return tc.bin(OpOr, xv, yv)
		case token.XOR:
			return tc.bin(OpXor, xv, yv)
		case token.AND_NOT:
			return tc.bin(OpAnd, xv, tc.NotBV(yv))
		case token.SHL, token.SHR:
			return in.shift(op, xv, yv, signed, isSigned(instrYType(instr)))
		case token.LSS:
			return tc.Lt(xv, yv, signed)
		case token.LEQ:
			return tc.Le(xv, yv, signed)
		case token.GTR:
			return tc.Lt(yv, xv, signed)
		case token.GEQ:
			return tc.Le(yv, xv, signed)
		}
	case FloatV:
		yv := y.(FloatV)
		f32 := false
		if b, ok := t.Underlying().(*types.Basic); ok && b.Kind() == types.Float32 {
			f32 = true
		}
		rnd := func(f float64) Value {
			if f32 {
				return FloatV{float64(float32(f))}
			}
			return FloatV{f}
		}
		switch op {
		case token.ADD:
			return rnd(xv.f + yv.f)
		case token.SUB:
			return rnd(xv.f - yv.f)
		case token.MUL:
			return rnd(xv.f * yv.f)
		case token.QUO:
			return rnd(xv.f / yv.f)
		case token.LSS:
			return tc.Bool(xv.f < yv.f)
		case token.LEQ:
			return tc.Bool(xv.f <= yv.f)
		case token.GTR:
			return tc.Bool(xv.f > yv.f)
		case token.GEQ:
			return tc.Bool(xv.f >= yv.f)
		}
	case *StrV:
		yv := y.(*StrV)
		switch op {
		case token.ADD:
			if xv.op != nil || yv.op != nil {
				in.opaqueID++
				return &StrV{op: &Opaque{kind: "concat", args: []Value{xv, yv}, id: in.opaqueID}}
			}
			nb := make([]*Term, 0, len(xv.b)+len(yv.b))
			nb = append(nb, xv.b...)
			nb = append(nb, yv.b...)
			return &StrV{b: nb}
		case token.LSS:
			return in.strLess(xv, yv, false)
		case token.LEQ:
			return in.strLess(xv, yv, true)
		case token.GTR:
			return in.strLess(yv, xv, false)
		case token.GEQ:
			return in.strLess(yv, xv, true)
		}
	}
	in.unsupported("binop %v on %T,%T", op, x, y)
	return nil
}

func instrYType(instr ssa.Instruction) types.Type {
	if b, ok := instr.(*ssa.BinOp); ok {
		return b.Y.Type()
	}
	return types.Typ[types.Uint]
}

func (in *Interp) shift(op token.Token, x, y *Term, signed, ySigned bool) Value {
	tc := in.tc
	if x.w == WInt {
		if !y.IsConst() {
			in.unsupported("int-mode shift by symbolic amount")
		}
		k := y.k
		if k >= 63 {
			in.unsupported("int-mode shift amount too large")
		}
		p := tc.IntC(int64(1) << k)
		if op == token.SHL {
			return tc.Mul(x, p)
		}
		// arithmetic shift right = floor division
		return tc.mk(OpApp, WInt, 0, "div", []*Term{x, p})
	}
	if ySigned && !y.IsConst() {
		// negative shift panics
		neg := tc.Lt(y, in.constLike(y, 0), true)
		if in.branch(neg) {
			in.goPanic("negative shift amount")
		}
	}
	// bring y to x's width, saturating
	var yy *Term
	switch {
	case y.w == x.w:
		yy = y
	case y.w < x.w:
		yy = tc.ZExt(y, x.w)
	default:
		// y wider: if y >= x.w -> saturate
		big := tc.Le(tc.BV(y.w, uint64(x.w)), y, false)
		yy = tc.Ite(big, tc.BV(x.w, uint64(x.w)), tc.Extract(y, x.w-1, 0))
	}
	switch {
	case op == token.SHL:
		return tc.bin(OpShl, x, yy)
	case signed:
		return tc.bin(OpAShr, x, yy)
	default:
		return tc.bin(OpLShr, x, yy)
	}
}

func (in *Interp) strLess(x, y *StrV, orEq bool) *Term {
	tc := in.tc
	if x.op != nil || y.op != nil {
		in.unsupported("ordering of opaque strings")
	}
	n := len(x.b)
	if len(y.b) < n {
		n = len(y.b)
	}
	// tail: all common bytes equal
	var res *Term
	if len(x.b) < len(y.b) {
		res = tc.tTrue
	} else if len(x.b) == len(y.b) {
		res = tc.Bool(orEq)
	} else {
		res = tc.tFalse
	}
	for i := n - 1; i >= 0; i-- {
		lt := tc.Lt(x.b[i], y.b[i], false)
		eq := tc.Eq(x.b[i], y.b[i])
		res = tc.Or(lt, tc.And(eq, res))
	}
	return res
}

// ---------- conversions ----------

func (in *Interp) conv(tdst, tsrc types.Type, x Value) Value {
	tc := in.tc
	ud := tdst.Underlying()
	us := tsrc.Underlying()
	switch ud := ud.(type) {
	case *types.Pointer:
		// unsafe.Pointer -> *T
		return x
	case *types.Slice:
		// string -> []byte / []rune
		s, ok := x.(*StrV)
		if !ok {
			in.unsupported("conv to slice from %T", x)
		}
		if s.op != nil {
			in.unsupported("conversion of opaque string to bytes")
		}
		switch ud.Elem().Underlying().(*types.Basic).Kind() {
		case types.Uint8:
			a := make([]Value, len(s.b))
			for i, b := range s.b {
				a[i] = b
			}
			return SliceV{a: a, n: len(a), c: len(a)}
		case types.Int32:
			cs, ok := s.Concrete()
			if !ok {
				in.unsupported("[]rune of symbolic string")
			}
			var a []Value
			for _, r := range cs {
				a = append(a, tc.BV(32, uint64(uint32(r))))
			}
			return SliceV{a: a, n: len(a), c: len(a)}
		}
	case *types.Basic:
		switch {
		case ud.Info()&types.IsString != 0:
			switch xs := x.(type) {
			case *StrV:
				return xs
			case SliceV:
				// []byte or []rune -> string
				el := us.(*types.Slice).Elem().Underlying().(*types.Basic).Kind()
				if el == types.Uint8 {
					b := make([]*Term, xs.n)
					for i := 0; i < xs.n; i++ {
						b[i] = xs.a[xs.off+i].(*Term)
					}
					return &StrV{b: b}
				}
				var rs []rune
				for i := 0; i < xs.n; i++ {
					t := xs.a[xs.off+i].(*Term)
					if !t.IsConst() {
						in.unsupported("string([]rune) with symbolic rune")
					}
					rs = append(rs, rune(int32(t.k)))
				}
				return in.mkStr(string(rs))
			case *Term:
				// integer -> string (rune)
				if !xs.IsConst() {
					in.unsupported("string(rune) of symbolic value")
				}
				return in.mkStr(string(rune(xs.SVal())))
			}
		case ud.Info()&types.IsInteger != 0 || ud.Kind() == types.UnsafePointer:
			wd := in.widthOf(tdst)
			switch xv := x.(type) {
			case *Term:
				if xv.w == WBool {
					break
				}
				if wd == WInt || xv.w == WInt {
					return in.convIntMode(xv, wd, tsrc, tdst)
				}
				if wd <= xv.w {
					return tc.Extract(xv, wd-1, 0)
				}
				if isSigned(tsrc) {
					return tc.SExt(xv, wd)
				}
				return tc.ZExt(xv, wd)
			case FloatV:
				if wd == WInt {
					return tc.IntC(int64(xv.f))
				}
				if isSigned(tdst) {
					return tc.BV(wd, uint64(int64(xv.f)))
				}
				return tc.BV(wd, uint64(xv.f))
			case *Value:
				// pointer -> uintptr/unsafe.Pointer: keep the pointer
				return x
			}
			if ud.Kind() == types.UnsafePointer {
				return x
			}
		case ud.Info()&types.IsFloat != 0:
			f32 := ud.Kind() == types.Float32
			switch xv := x.(type) {
			case FloatV:
				if f32 {
					return FloatV{float64(float32(xv.f))}
				}
				return xv
			case *Term:
				if !xv.IsConst() {
					in.unsupported("int->float conversion of symbolic value")
				}
				var f float64
				if xv.w == WInt || isSigned(tsrc) {
					f = float64(xv.SVal())
				} else {
					f = float64(xv.k)
				}
				if f32 {
					f = float64(float32(f))
				}
				return FloatV{f}
			}
		}
	}
	in.unsupported("conv %v -> %v (%T)", tsrc, tdst, x)
	return nil
}

func (in *Interp) convIntMode(x *Term, wd int, tsrc, tdst types.Type) Value {
	tc := in.tc
	if x.w == WInt && wd == WInt {
		return x
	}
	if x.w == WInt {
		// Int -> BV: only for constants
		if x.IsConst() {
			return tc.BV(wd, x.k)
		}
		// uint64(int) etc: stay in Int mode when the widths are 64 (value-preserving
		// for non-negative values; an obligation is recorded)
		if wd == 64 {
			in.obligation(tc.Le(tc.IntC(0), x, true), "int-mode: conversion int64->uint64 of negative value")
			return x
		}
		return tc.App(fmt.Sprintf("int2bv%d", wd), wd, x)
	}
	// BV -> Int
	if x.IsConst() {
		if isSigned(tsrc) {
			return tc.IntC(x.SVal())
		}
		return tc.IntC(int64(x.k))
	}
	if isSigned(tsrc) {
		// signed bv2int
		u := tc.mk(OpApp, WInt, 0, "bv2nat", []*Term{x})
		sign := tc.Lt(x, tc.BV(x.w, 0), true)
		var mod *Term
		if x.w < 63 {
			mod = tc.IntC(int64(1) << uint(x.w))
		} else {
			in.unsupported("int-mode: signed 64-bit bv->int")
		}
		return tc.Ite(sign, tc.Sub(u, mod), u)
	}
	return tc.mk(OpApp, WInt, 0, "bv2nat", []*Term{x})
}

// obligation: in int mode, record a side condition that must be valid.
func (in *Interp) obligation(c *Term, msg string) {
	if c.IsTrue() {
		return
	}
	in.doAssert(c, "obligation:"+msg, "")
}

func (in *Interp) sliceToArrayPointer(t types.Type, x Value) Value {
	s := x.(SliceV)
	n := int(mustDeref(t).Underlying().(*types.Array).Len())
	if s.n < n {
		in.goPanic("cannot convert slice to array pointer: length too short")
	}
	if s.nil {
		return (*Value)(nil)
	}
	var v Value = Array(s.a[s.off : s.off+n : s.off+n])
	return &v
}

// ---------- slices, arrays, strings ----------

func (in *Interp) makeSlice(instr *ssa.MakeSlice, ln, cp *Term) Value {
	tc := in.tc
	same := ln == cp
	ln = in.simp(ln)
	if same {
		cp = ln
	} else {
		cp = in.simp(cp)
	}
	// len and cap must be 0 <= len <= cap <= limit
	if !ln.IsConst() || !cp.IsConst() {
		zero := in.constLike(ln, 0)
		bad := tc.Or(tc.Lt(ln, zero, true), tc.Lt(cp, ln, true))
		lim := in.constLike(ln, uint64(in.cfg.MaxAlloc))
		bad = tc.Or(bad, tc.Lt(lim, cp, true))
		if in.branch(bad) {
			in.goPanic("makeslice: len out of range")
		}
	}
	if in.allocLimit > 0 && !cp.IsConst() {
		if in.branch(tc.Lt(in.constLike(cp, uint64(in.allocLimit)), cp, true)) {
			in.recordViolation("alloc: allocation out of proportion to the input at "+in.posStr(instr.Pos()), "assert", "")
			panic(pathEnd{"cut", "allocation above the harness limit"})
		}
	}
	if k := in.cfg.MakeLenSplit; k > 0 && !ln.IsConst() {
		// bounded exploration of input-controlled lengths: 0..k+1 individually; larger
		// values are cut (stated in the bounds; the allocation-size obligation above is
		// still decided for the fully symbolic length)
		if !in.branch(tc.Le(ln, in.constLike(ln, uint64(k)), true)) {
			picked := false
			for _, cand := range []uint64{uint64(k + 1)} {
				if cand == 0 {
					continue
				}
				eq := tc.Eq(ln, in.constLike(ln, cand))
				if in.sol.Check(eq, false) == Sat {
					in.run.cuts++
					in.assume(eq)
					picked = true
					break
				}
			}
			if !picked {
				in.run.cuts++
				in.assume(tc.Eq(ln, in.anyValue(ln)))
			}
		}
	}
	n := in.concInt(ln, "makeslice len")
	c := n
	if cp != ln && cp.IsConst() {
		c = in.concInt(cp, "makeslice cap")
	}
	// A symbolic capacity (already checked to be in range) is not concretised:
	// the slice starts with cap == len and append reallocates, which is
	// unobservable for a fresh slice apart from the cap() builtin.
	if n < 0 || c < n || c > int64(in.cfg.MaxAlloc) {
		in.goPanic("makeslice: len out of range")
	}
	if in.allocLimit > 0 && c > in.allocLimit {
		in.recordViolation("alloc: allocation out of proportion to the input at "+in.posStr(instr.Pos()), "assert", "")
	}
	in.noteAlloc(instr, c)
	et := instr.Type().Underlying().(*types.Slice).Elem()
	a := make([]Value, c)
	if c > 0 {
		z := in.zero(et)
		if _, ok := z.(*Term); ok {
			for i := range a {
				a[i] = z
			}
		} else {
			a[0] = z
			for i := int64(1); i < c; i++ {
				a[i] = in.zero(et)
			}
		}
	}
	return SliceV{a: a, n: int(n), c: int(c)}
}

func (in *Interp) noteAlloc(instr ssa.Instruction, n int64) {
	if in.cfg.allocHook != nil {
		in.cfg.allocHook(in, instr, n)
	}
}

func (in *Interp) slice(instr *ssa.Slice, x, lo, hi, max Value) Value {
	tc := in.tc
	var ln, cp int
	var backing []Value
	var off int
	isStr := false
	var str *StrV
	wasNil := false
	switch x := x.(type) {
	case SliceV:
		ln, cp, backing, off = x.n, x.c, x.a, x.off
		wasNil = x.nil
	case *StrV:
		if x.op != nil {
			in.unsupported("slicing opaque string")
		}
		isStr, str = true, x
		ln, cp = len(x.b), len(x.b)
	case *Value:
		if x == nil {
			in.goPanic("invalid memory address or nil pointer dereference")
		}
		arr := (*x).(Array)
		ln, cp, backing = len(arr), len(arr), []Value(arr)
	default:
		in.unsupported("slice of %T", x)
	}
	l := tc.BV(64, 0)
	if lo != nil {
		l = in.simp(in.as64u(lo.(*Term), instr.Low.Type()))
	}
	var h *Term
	if hi != nil {
		h = in.simp(in.as64u(hi.(*Term), instr.High.Type()))
	} else {
		h = tc.BV(64, uint64(ln))
	}
	m := tc.BV(64, uint64(cp))
	if max != nil {
		m = in.as64(max.(*Term))
	}
	// bounds: 0 <= l <= h <= m <= cap
	bad := tc.Or(tc.Lt(h, l, false), tc.Or(tc.Lt(m, h, false), tc.Lt(tc.BV(64, uint64(cp)), m, false)))
	if isStr {
		bad = tc.Or(tc.Lt(h, l, false), tc.Lt(tc.BV(64, uint64(ln)), h, false))
	}
	if in.branch(bad) {
		in.goPanic("slice bounds out of range")
	}
	li := int(in.concInt(l, "slice low"))
	if k := in.cfg.SliceLenSplit; k > 0 && !h.IsConst() {
		// bounded exploration of input-controlled slice lengths: 0..k individually plus the
		// largest feasible one; lengths in between are cut (stated in the bounds)
		lim := tc.BV(64, uint64(li+k))
		if !in.branch(tc.Le(h, lim, false)) {
			top := ln
			if !isStr {
				top = cp
			}
			picked := false
			for cand := top; cand > li+k && cand > top-3; cand-- {
				eq := tc.Eq(h, tc.BV(64, uint64(cand)))
				if in.sol.Check(eq, false) == Sat {
					in.run.cuts++
					in.assume(eq)
					picked = true
					break
				}
			}
			if !picked {
				in.run.cuts++
				in.assume(tc.Eq(h, in.anyValue(h)))
			}
		}
	}
	hiI := int(in.concInt(h, "slice high"))
	mi := int(in.concInt(m, "slice max"))
	if isStr {
		return &StrV{b: str.b[li:hiI]}
	}
	if backing == nil && wasNil {
		return SliceV{nil: true}
	}
	return SliceV{a: backing, off: off + li, n: hiI - li, c: mi - li}
}

// as64 widens an index term to 64 bits (signed source assumed non-negative is
// checked by callers through unsigned comparison).
func (in *Interp) as64u(t *Term, ty types.Type) *Term {
	if t.w > 0 && t.w < 64 && ty != nil && !isSigned(ty) {
		return in.tc.ZExt(t, 64)
	}
	return in.as64(t)
}

func (in *Interp) as64(t *Term) *Term {
	if t.w == WInt {
		if t.IsConst() {
			return in.tc.BV(64, t.k)
		}
		in.unsupported("int-mode index")
	}
	if t.w == 64 {
		return t
	}
	return in.tc.SExt(t, 64)
}

func (in *Interp) indexAddr(x Value, idx *Term, instr *ssa.IndexAddr) Value {
	tc := in.tc
	var cells []Value
	switch x := x.(type) {
	case SliceV:
		cells = x.a[x.off : x.off+x.n]
	case *Value:
		if x == nil {
			in.goPanic("invalid memory address or nil pointer dereference")
		}
		cells = []Value((*x).(Array))
	default:
		in.unsupported("IndexAddr on %T", x)
	}
	i64 := in.simp(in.as64u(idx, instr.Index.Type()))
	if i64.IsConst() {
		i := int64(i64.k)
		if i < 0 || i >= int64(len(cells)) {
			in.goPanic(fmt.Sprintf("index out of range [%d] with length %d", i, len(cells)))
		}
		return &cells[i]
	}
	inRange := tc.Lt(i64, tc.BV(64, uint64(len(cells))), false)
	if !in.branch(inRange) {
		in.goPanic("index out of range (symbolic index)")
	}
	if len(cells) == 1 {
		return &cells[0]
	}
	if len(cells) <= in.cfg.SymIdxMax && scalarish(cells[0]) {
		return &SymPtr{cells: cells, idx: i64}
	}
	i := in.concInt(i64, "index")
	return &cells[i]
}

func scalarish(v Value) bool {
	switch v := v.(type) {
	case *Term:
		return true
	case Struct:
		for _, f := range v {
			if !scalarish(f) {
				return false
			}
		}
		return true
	case Array:
		for _, f := range v {
			if !scalarish(f) {
				return false
			}
		}
		return true
	}
	return false
}

func (in *Interp) index(x Value, idx *Term, instr *ssa.Index) Value {
	tc := in.tc
	var ity types.Type
	if instr != nil {
		ity = instr.Index.Type()
	}
	i64 := in.simp(in.as64u(idx, ity))
	switch x := x.(type) {
	case Array:
		if i64.IsConst() {
			if int64(i64.k) < 0 || int64(i64.k) >= int64(len(x)) {
				in.goPanic("index out of range")
			}
			return copyVal(x[i64.k])
		}
		if !in.branch(tc.Lt(i64, tc.BV(64, uint64(len(x))), false)) {
			in.goPanic("index out of range (symbolic index)")
		}
		return in.symLoad(&SymPtr{cells: []Value(x), idx: i64})
	case *StrV:
		if x.op != nil {
			in.unsupported("indexing opaque string")
		}
		if i64.IsConst() {
			if int64(i64.k) < 0 || int64(i64.k) >= int64(len(x.b)) {
				in.goPanic("index out of range")
			}
			return x.b[i64.k]
		}
		if !in.branch(tc.Lt(i64, tc.BV(64, uint64(len(x.b))), false)) {
			in.goPanic("index out of range (symbolic index)")
		}
		res := x.b[len(x.b)-1]
		for i := len(x.b) - 2; i >= 0; i-- {
			res = tc.Ite(tc.Eq(i64, tc.BV(64, uint64(i))), x.b[i], res)
		}
		return res
	}
	in.unsupported("Index on %T", x)
	return nil
}

// ---------- maps ----------

// mapFind returns the position of key in m, forking on symbolic key equality.
func (in *Interp) mapFind(m *MapV, key Value) int {
	if m == nil {
		return -1
	}
	if ks, ok := keyString(key); ok && len(m.index) == len(m.ents) {
		if p, ok := m.index[ks]; ok {
			return p
		}
		return -1
	}
	for i, e := range m.ents {
		c := in.eq(m.kt, key, e.k)
		if in.branch(c) {
			return i
		}
	}
	return -1
}

func (in *Interp) lookup(instr *ssa.Lookup, x, key Value) Value {
	switch x := x.(type) {
	case *MapV:
		p := in.mapFind(x, key)
		var v Value
		ok := p >= 0
		if ok {
			v = copyVal(x.ents[p].v)
		} else {
			v = in.zero(instr.X.Type().Underlying().(*types.Map).Elem())
		}
		if instr.CommaOk {
			return Tuple{v, in.tc.Bool(ok)}
		}
		return v
	case *StrV:
		kt := key.(*Term)
		if kt.w > 0 && kt.w < 64 && !isSigned(instr.Index.Type()) {
			kt = in.tc.ZExt(kt, 64)
		}
		return in.index(x, kt, nil)
	}
	in.unsupported("lookup on %T", x)
	return nil
}

func (in *Interp) mapUpdate(m *MapV, key, v Value) {
	p := in.mapFind(m, key)
	if p >= 0 {
		m.ents[p].v = copyVal(v)
		return
	}
	m.ents = append(m.ents, &mapEntry{k: copyVal(key), v: copyVal(v)})
	if ks, ok := keyString(key); ok && len(m.index) == len(m.ents)-1 {
		m.index[ks] = len(m.ents) - 1
	}
}

func (in *Interp) mapDelete(m *MapV, key Value) {
	p := in.mapFind(m, key)
	if p < 0 {
		return
	}
	m.ents = append(m.ents[:p:p], m.ents[p+1:]...)
	// rebuild index
	idx := map[string]int{}
	for i, e := range m.ents {
		if ks, ok := keyString(e.k); ok {
			idx[ks] = i
		}
	}
	m.index = idx
}

type mapIter struct {
	m    *MapV
	snap []*mapEntry
	i    int
}
type strIter struct {
	s *StrV
	i int
}

func (in *Interp) rangeIter(x Value) Value {
	switch x := x.(type) {
	case *MapV:
		it := &mapIter{m: x}
		if x != nil {
			it.snap = append([]*mapEntry{}, x.ents...)
		}
		return &Native{kind: "mapiter", v: it}
	case *StrV:
		return &Native{kind: "striter", v: &strIter{s: x}}
	}
	in.unsupported("range over %T", x)
	return nil
}

func (in *Interp) iterNext(itv Value, instr *ssa.Next) Value {
	tc := in.tc
	n := itv.(*Native)
	switch it := n.v.(type) {
	case *mapIter:
		for it.i < len(it.snap) {
			e := it.snap[it.i]
			it.i++
			// skip entries deleted during iteration
			alive := false
			for _, cur := range it.m.ents {
				if cur == e {
					alive = true
					break
				}
			}
			if alive {
				return Tuple{tc.tTrue, copyVal(e.k), copyVal(e.v)}
			}
		}
		return Tuple{tc.tFalse, nil, nil}
	case *strIter:
		if it.s.op != nil {
			in.unsupported("range over opaque string")
		}
		if it.i >= len(it.s.b) {
			return Tuple{tc.tFalse, tc.BV(64, 0), tc.BV(32, 0)}
		}
		b := it.s.b[it.i]
		pos := it.i
		if b.IsConst() {
			// decode natively as far as bytes are concrete
			buf := []byte{}
			for j := it.i; j < len(it.s.b) && j < it.i+4; j++ {
				if !it.s.b[j].IsConst() {
					break
				}
				buf = append(buf, byte(it.s.b[j].k))
			}
			r, size := utf8.DecodeRune(buf)
			if r == utf8.RuneError && size <= 1 && len(buf) < 4 && it.i+len(buf) < len(it.s.b) && !utf8.FullRune(buf) {
				in.unsupported("range over string: multi-byte rune with symbolic continuation")
			}
			it.i += size
			return Tuple{tc.tTrue, tc.BV(64, uint64(pos)), tc.BV(32, uint64(uint32(r)))}
		}
		// symbolic byte: ASCII assumption is decided, not assumed
		if !in.branch(tc.Lt(b, tc.BV(8, 0x80), false)) {
			in.unsupported("range over string with symbolic non-ASCII byte")
		}
		it.i++
		return Tuple{tc.tTrue, tc.BV(64, uint64(pos)), tc.ZExt(b, 32)}
	}
	in.unsupported("next on %T", n.v)
	return nil
}

// ---------- type assertions ----------

func (in *Interp) typeAssert(instr *ssa.TypeAssert, xv Value) Value {
	x, _ := xv.(Iface)
	var v Value
	err := ""
	if idst, ok := instr.AssertedType.Underlying().(*types.Interface); ok {
		if x.t == nil {
			err = "interface conversion: interface is nil"
		} else if in.implements(x.t, idst) {
			v = x
		} else {
			err = fmt.Sprintf("interface conversion: %v does not implement %v", x.t, instr.AssertedType)
		}
	} else {
		if x.t == nil {
			err = "interface conversion: interface is nil"
		} else if types.Identical(x.t, instr.AssertedType) {
			v = copyVal(x.v)
		} else {
			err = fmt.Sprintf("interface conversion: interface is %v, not %v", x.t, instr.AssertedType)
		}
	}
	if err != "" {
		if !instr.CommaOk {
			in.goPanic(err)
		}
		return Tuple{in.zero(instr.AssertedType), in.tc.tFalse}
	}
	if instr.CommaOk {
		return Tuple{v, in.tc.tTrue}
	}
	return v
}

func (in *Interp) implements(t types.Type, idst *types.Interface) bool {
	if t == nativeErrType || t == runtimeErrNamed {
		// error values implement error (and nothing beyond Error/Unwrap)
		for i := 0; i < idst.NumMethods(); i++ {
			switch idst.Method(i).Name() {
			case "Error":
			case "Unwrap":
				if t == runtimeErrNamed {
					return false
				}
			case "RuntimeError":
				if t != runtimeErrNamed {
					return false
				}
			default:
				return false
			}
		}
		return true
	}
	if t == nativeObjType {
		return true
	}
	return types.Implements(t, idst)
}

// ---------- builtins ----------

func (in *Interp) callBuiltin(caller *frame, fn *ssa.Builtin, args []Value) Value {
	tc := in.tc
	switch fn.Name() {
	case "append":
		if len(args) == 1 {
			return args[0]
		}
		var add []Value
		switch y := args[1].(type) {
		case *StrV:
			if y.op != nil {
				in.unsupported("append of opaque string")
			}
			add = make([]Value, len(y.b))
			for i, b := range y.b {
				add[i] = b
			}
		case SliceV:
			add = make([]Value, y.n)
			for i := 0; i < y.n; i++ {
				add[i] = copyVal(y.a[y.off+i])
			}
		}
		x := args[0].(SliceV)
		if len(add) == 0 {
			return x
		}
		if x.n+len(add) <= x.c {
			copy(x.a[x.off+x.n:], add)
			return SliceV{a: x.a, off: x.off, n: x.n + len(add), c: x.c}
		}
		nc := x.c * 2
		if nc < x.n+len(add) {
			nc = x.n + len(add)
		}
		na := make([]Value, nc)
		copy(na, x.a[x.off:x.off+x.n])
		copy(na[x.n:], add)
		// zero-fill the rest lazily: use the zero value of the element type
		if nc > x.n+len(add) {
			et := fn.Type().(*types.Signature).Params().At(0).Type().Underlying().(*types.Slice).Elem()
			z := in.zero(et)
			_, scalar := z.(*Term)
			for i := x.n + len(add); i < nc; i++ {
				if scalar {
					na[i] = z
				} else {
					na[i] = in.zero(et)
				}
			}
		}
		return SliceV{a: na, n: x.n + len(add), c: nc}
	case "copy":
		dst := args[0].(SliceV)
		n := dst.n
		switch src := args[1].(type) {
		case SliceV:
			if src.n < n {
				n = src.n
			}
			tmp := make([]Value, n)
			for i := 0; i < n; i++ {
				tmp[i] = copyVal(src.a[src.off+i])
			}
			copy(dst.a[dst.off:dst.off+n], tmp)
		case *StrV:
			if src.op != nil {
				in.unsupported("copy from opaque string")
			}
			if len(src.b) < n {
				n = len(src.b)
			}
			for i := 0; i < n; i++ {
				dst.a[dst.off+i] = src.b[i]
			}
		}
		return tc.BV(64, uint64(n))
	case "close":
		in.chanClose(args[0].(*ChanV))
		return nil
	case "delete":
		m, _ := args[0].(*MapV)
		if m != nil {
			in.mapDelete(m, args[1])
		}
		return nil
	case "print", "println":
		return nil
	case "len":
		switch x := args[0].(type) {
		case *StrV:
			if x.op != nil {
				in.unsupported("len of opaque string")
			}
			return in.lenTerm(len(x.b))
		case SliceV:
			return in.lenTerm(x.n)
		case Array:
			return in.lenTerm(len(x))
		case *Value:
			return in.lenTerm(len((*x).(Array)))
		case *MapV:
			if x == nil {
				return in.lenTerm(0)
			}
			return in.lenTerm(len(x.ents))
		case *ChanV:
			if x == nil {
				return in.lenTerm(0)
			}
			return in.lenTerm(len(x.buf))
		}
	case "cap":
		switch x := args[0].(type) {
		case SliceV:
			return in.lenTerm(x.c)
		case Array:
			return in.lenTerm(len(x))
		case *Value:
			return in.lenTerm(len((*x).(Array)))
		case *ChanV:
			if x == nil {
				return in.lenTerm(0)
			}
			return in.lenTerm(x.cap)
		}
	case "min", "max":
		res := args[0]
		sig := fn.Type().(*types.Signature)
		pt := sig.Params().At(0).Type()
		for _, a := range args[1:] {
			switch r := res.(type) {
			case *Term:
				at := a.(*Term)
				var c *Term
				if fn.Name() == "min" {
					c = tc.Lt(at, r, isSigned(pt))
				} else {
					c = tc.Lt(r, at, isSigned(pt))
				}
				res = tc.Ite(c, at, r)
			case FloatV:
				af := a.(FloatV)
				if fn.Name() == "min" {
					res = FloatV{math.Min(r.f, af.f)}
				} else {
					res = FloatV{math.Max(r.f, af.f)}
				}
			default:
				in.unsupported("min/max on %T", res)
			}
		}
		return res
	case "clear":
		switch x := args[0].(type) {
		case *MapV:
			if x != nil {
				x.ents = nil
				x.index = map[string]int{}
			}
		case SliceV:
			if x.n > 0 {
				et := fn.Type().(*types.Signature).Params().At(0).Type().Underlying().(*types.Slice).Elem()
				for i := 0; i < x.n; i++ {
					x.a[x.off+i] = in.zero(et)
				}
			}
		}
		return nil
	case "panic":
		panic(targetPanic{args[0]})
	case "recover":
		return in.doRecover(caller)
	case "ssa:wrapnilchk":
		recv := args[0]
		if p, ok := recv.(*Value); ok && p == nil {
			in.goPanic("value method called using nil pointer")
		}
		return recv
	}
	in.unsupported("builtin %s(%T)", fn.Name(), firstOrNil(args))
	return nil
}

func firstOrNil(a []Value) Value {
	if len(a) > 0 {
		return a[0]
	}
	return nil
}

func (in *Interp) lenTerm(n int) *Term {
	if in.intMode {
		return in.tc.IntC(int64(n))
	}
	return in.tc.BV(64, uint64(n))
}

// anyValue returns one feasible value of t on the current path (as a constant term).
func (in *Interp) anyValue(t *Term) *Term {
	if in.sol.Check(nil, true) != Sat {
		panic(pathEnd{"infeasible", "no model"})
	}
	v := in.sol.GetValues([]*Term{t})[0]
	in.sol.EndCheck()
	return in.constLike(t, v)
}
