package main

import (
	"fmt"
	"go/token"
	"go/types"
	"net"
	"slices"
	"strings"

	"golang.org/x/tools/go/ssa"
)

// ---------- control-flow signals (Go panics used internally) ----------

type targetPanic struct{ v Value } // a Go-level panic inside the interpreted program
type pathEnd struct {              // terminate the current path
	kind string // "infeasible", "unsupported", "unwind", "budget", "deadlock", "abort", "exit"
	msg  string
}

type frame struct {
	in        *Interp
	caller    *frame
	fn        *ssa.Function
	block     *ssa.BasicBlock
	prevBlock *ssa.BasicBlock
	env       map[ssa.Value]Value
	locals    []Value
	defers    *deferred
	result    Value
	panicking bool
	panic     interface{}
	phitemps  []Value
	symVisits map[ssa.Instruction]int
	thread    *Thread
	skipPhis  bool
}

type deferred struct {
	fn    Value
	args  []Value
	instr *ssa.Defer
	tail  *deferred
}

type Dec struct {
	C      int    `json:"c"`
	Forced bool   `json:"f,omitempty"`
	Val    uint64 `json:"v,omitempty"`
	Kind   byte   `json:"k,omitempty"` // 'b' branch, 'c' concretize, 'n' choose
}

type Violation struct {
	Harness  string            `json:"harness"`
	Tag      string            `json:"tag"`
	Kind     string            `json:"kind"` // "assert" or "crash"
	Pos      string            `json:"pos"`
	Nondet   []NondetVal       `json:"nondet"`
	Log      []string          `json:"log"`
	Trace    []Dec             `json:"trace"`
	Extra    map[string]string `json:"extra,omitempty"`
	Count    int               `json:"count"`
	StackTop []string          `json:"stack,omitempty"`
}

type NondetVal struct {
	Seq   int    `json:"seq"`
	Kind  string `json:"kind"`
	Label string `json:"label,omitempty"`
	W     int    `json:"w"`
	Val   uint64 `json:"val"`
}

type nondetVar struct {
	t     *Term
	kind  string
	label string
}

type logEntry struct {
	tag  string
	vals []Value
}

// PathRun is the state of one path execution.
type PathRun struct {
	prefix   []Dec
	trace    []Dec
	spawned  [][]Dec
	nondets  []nondetVar
	logs     []logEntry
	reached  map[string]bool
	assumes  map[string]bool
	viols    []*Violation
	end      string
	endMsg   string
	steps    int64
	asserts  int
	asserted int
	cuts     int
}

type Interp struct {
	prog     *ssa.Program
	mainPkg  *ssa.Package
	cfg      *Config
	tc       *TermCtx
	sol      *Solver
	run      *PathRun
	globals  map[*ssa.Global]*Value
	initDone map[*ssa.Package]bool
	byteTab  [256]*Term
	emptyStr *StrV
	intMode  bool
	harness  string

	// scheduler
	threads []*Thread
	cur     *Thread
	nextTID int
	aborted bool

	// side tables
	locks    map[*Value]*lockState
	onces    map[*Value]bool
	wgs      map[*Value]*Term
	side     map[*Value]Value
	timers   []*timerObj
	opaqueID int
	chanID   int
	nowSeq   int
	lastNow  *Term

	funcsSeen map[*ssa.Function]bool
	errType   types.Type
	stats     *Stats
	replaceFn map[string]*ssa.Function
	heldLocks map[*Thread][]*Value
	guarded   map[*Value]*Value // slot -> mutex that must be held

	pendingEnd   *pathEnd
	pendingCrash interface{}
	nowOverride  *Term
	fs           *vfsState
	spec         int
	allocLimit   int64
	known        map[*Term]uint64
	sealSeq      int
	seals        []*sealRec
	sealHook     Value
	openOracle   Value
	hkdfs        []*hkdfRec
	dhApps       []dhRec
	schedOff     bool
	preemptsUsed int
}

type Stats struct {
	Steps  int64
	Merges int64
}

func (in *Interp) unsupported(format string, a ...interface{}) {
	panic(pathEnd{"unsupported", fmt.Sprintf(format, a...)})
}

func (in *Interp) goPanic(msg string) {
	panic(targetPanic{Iface{t: in.runtimeErrType(), v: in.mkStr("runtime error: " + msg)}})
}

var runtimeErrNamed types.Type

func (in *Interp) runtimeErrType() types.Type {
	if runtimeErrNamed == nil {
		// a private named string type standing for runtime.Error values
		tn := types.NewTypeName(token.NoPos, nil, "runtimeError", nil)
		runtimeErrNamed = types.NewNamed(tn, types.Typ[types.String], nil)
	}
	return runtimeErrNamed
}

func (fr *frame) get(key ssa.Value) Value {
	switch key := key.(type) {
	case nil:
		return nil
	case *ssa.Function, *ssa.Builtin:
		return key
	case *ssa.Const:
		return fr.in.constValue(key)
	case *ssa.Global:
		return fr.in.globalAddr(key)
	}
	if r, ok := fr.env[key]; ok {
		return r
	}
	panic(fmt.Sprintf("get: no value for %T: %v", key, key.Name()))
}

func (in *Interp) constValue(c *ssa.Const) Value {
	if c.Value == nil {
		return in.zero(c.Type())
	}
	t := c.Type().Underlying()
	if tp, ok := t.(*types.TypeParam); ok {
		_ = tp
		in.unsupported("const of type parameter")
	}
	if b, ok := t.(*types.Basic); ok {
		switch {
		case b.Info()&types.IsBoolean != 0:
			return in.tc.Bool(constantBool(c))
		case b.Info()&types.IsInteger != 0:
			w := in.widthOf(c.Type())
			if w == WInt {
				return in.tc.IntC(c.Int64())
			}
			if b.Info()&types.IsUnsigned != 0 {
				return in.tc.BV(w, c.Uint64())
			}
			return in.tc.BV(w, uint64(c.Int64()))
		case b.Info()&types.IsFloat != 0:
			return FloatV{c.Float64()}
		case b.Info()&types.IsString != 0:
			return in.mkStr(constantString(c))
		case b.Kind() == types.UnsafePointer:
			return in.tc.BV(64, 0)
		}
	}
	in.unsupported("constValue: %v", c)
	return nil
}

// ---------- globals and package initialisation ----------

func (in *Interp) globalAddr(g *ssa.Global) *Value {
	if p, ok := in.globals[g]; ok {
		return p
	}
	pkg := g.Pkg
	if !in.initDone[pkg] {
		in.initDone[pkg] = true
		// allocate all globals of the package
		for _, m := range pkg.Members {
			if gg, ok := m.(*ssa.Global); ok {
				v := in.zero(mustDeref(gg.Type()))
				in.globals[gg] = &v
			}
		}
		if in.shouldRunInit(pkg) {
			in.runInit(pkg)
		} else {
			in.sentinelInit(pkg)
		}
	}
	if p, ok := in.globals[g]; ok {
		return p
	}
	v := in.zero(mustDeref(g.Type()))
	in.globals[g] = &v
	return &v
}

func mustDeref(t types.Type) types.Type {
	if p, ok := t.Underlying().(*types.Pointer); ok {
		return p.Elem()
	}
	panic("mustDeref: not a pointer: " + t.String())
}

var initAllow = map[string]bool{
	"io": true, "errors": true, "encoding/binary": true, "bytes": true, "strings": true,
	"sort": true, "unicode/utf8": true, "strconv": true, "io/fs": true, "encoding/hex": true,
	"context": true, "bufio": true, "math": true, "path/filepath": true, "path": true,
	"internal/oserror": true, "encoding/base64": true, "internal/poll": false,
	"math/bits": true, "slices": true, "maps": true, "container/list": true,
}

func (in *Interp) shouldRunInit(pkg *ssa.Package) bool {
	p := pkg.Pkg.Path()
	if strings.HasPrefix(p, in.cfg.ModulePath) {
		return true
	}
	return initAllow[p]
}

func (in *Interp) runInit(pkg *ssa.Package) {
	initFn := pkg.Func("init")
	if initFn == nil || initFn.Blocks == nil {
		return
	}
	saved := in.run.end
	defer func() { in.run.end = saved }()
	in.callSSA(nil, initFn, nil, nil)
}

// sentinelInit gives error-typed globals of non-interpreted packages a unique
// sentinel error value (identity is all that errors.Is needs).
func (in *Interp) sentinelInit(pkg *ssa.Package) {
	for name, m := range pkg.Members {
		g, ok := m.(*ssa.Global)
		if !ok {
			continue
		}
		et := mustDeref(g.Type())
		if pkg.Pkg.Path() == "crypto/rand" && name == "Reader" {
			*in.globals[g] = Iface{t: nativeObjType, v: &Native{kind: "randreader"}}
			continue
		}
		if types.Identical(et, in.errType) {
			*in.globals[g] = in.newError(pkg.Pkg.Path() + "." + name)
		}
		if pkg.Pkg.Path() == "net" {
			// well-known addresses (net's init is not run)
			var ip []byte
			switch name {
			case "IPv4zero":
				ip = net.IPv4zero
			case "IPv4bcast":
				ip = net.IPv4bcast
			case "IPv4allsys":
				ip = net.IPv4allsys
			case "IPv4allrouter":
				ip = net.IPv4allrouter
			case "IPv6zero":
				ip = net.IPv6zero
			case "IPv6unspecified":
				ip = net.IPv6unspecified
			case "IPv6loopback":
				ip = net.IPv6loopback
			case "v4InV6Prefix":
				ip = []byte{0, 0, 0, 0, 0, 0, 0, 0, 0, 0, 0xff, 0xff}
			case "classAMask":
				ip = net.IPv4Mask(0xff, 0, 0, 0)
			case "classBMask":
				ip = net.IPv4Mask(0xff, 0xff, 0, 0)
			case "classCMask":
				ip = net.IPv4Mask(0xff, 0xff, 0xff, 0)
			}
			if ip != nil {
				ts := make([]*Term, len(ip))
				for i := range ip {
					ts[i] = in.tc.BV(8, uint64(ip[i]))
				}
				*in.globals[g] = in.mkByteSlice(ts)
			}
		}
	}
}

// ---------- errors (engine-native error values) ----------

type errObj struct {
	msg     *StrV
	wrapped []Value // Iface values
}

var nativeErrType = func() types.Type {
	tn := types.NewTypeName(token.NoPos, nil, "verifError", nil)
	return types.NewNamed(tn, types.NewStruct(nil, nil), nil)
}()

func (in *Interp) newError(msg string) Value {
	return Iface{t: nativeErrType, v: &Native{kind: "error", v: &errObj{msg: in.mkStr(msg)}}}
}

func (in *Interp) newErrorV(msg *StrV, wrapped ...Value) Value {
	return Iface{t: nativeErrType, v: &Native{kind: "error", v: &errObj{msg: msg, wrapped: wrapped}}}
}

// ---------- calls ----------

func (in *Interp) prepareCall(fr *frame, call *ssa.CallCommon) (fn Value, args []Value) {
	v := fr.get(call.Value)
	if call.Method == nil {
		fn = v
	} else {
		recv, ok := v.(Iface)
		if !ok || recv.t == nil {
			in.goPanic("invalid memory address or nil pointer dereference (method on nil interface)")
		}
		if recv.t == nativeErrType || recv.t == runtimeErrNamed {
			fn = &Native{kind: "errmethod", v: call.Method.Name()}
		} else if nat, ok := recv.v.(*Native); ok && nat != nil && recv.t == nativeObjType {
			fn = &Native{kind: "natmethod", v: call.Method.Name()}
		} else {
			f := in.prog.LookupMethod(recv.t, call.Method.Pkg(), call.Method.Name())
			if f == nil {
				in.unsupported("method %s not found for %v", call.Method.Name(), recv.t)
			}
			fn = f
		}
		args = append(args, recv.v)
	}
	for _, arg := range call.Args {
		args = append(args, fr.get(arg))
	}
	return
}

var nativeObjType = func() types.Type {
	tn := types.NewTypeName(token.NoPos, nil, "verifNative", nil)
	return types.NewNamed(tn, types.NewStruct(nil, nil), nil)
}()

func (in *Interp) call(caller *frame, pos token.Pos, fn Value, args []Value) Value {
	switch fn := fn.(type) {
	case *ssa.Function:
		if fn == nil {
			in.goPanic("invalid memory address or nil pointer dereference (nil func)")
		}
		return in.callSSA(caller, fn, args, nil)
	case *Closure:
		return in.callSSA(caller, fn.fn, args, fn.env)
	case *ssa.Builtin:
		return in.callBuiltin(caller, fn, args)
	case *Native:
		switch fn.kind {
		case "errmethod":
			return in.errMethod(fn.v.(string), args)
		case "natmethod":
			return in.nativeMethod(caller, fn.v.(string), args)
		case "gofunc":
			return fn.v.(func(*Interp, *frame, []Value) Value)(in, caller, args)
		}
	}
	in.unsupported("cannot call %T", fn)
	return nil
}

func (in *Interp) errMethod(name string, args []Value) Value {
	switch name {
	case "Error":
		switch v := args[0].(type) {
		case *Native:
			return v.v.(*errObj).msg
		case *StrV:
			return v
		}
	case "Unwrap":
		if n, ok := args[0].(*Native); ok {
			e := n.v.(*errObj)
			if len(e.wrapped) > 0 {
				return e.wrapped[0]
			}
		}
		return Iface{}
	case "Timeout", "Temporary":
		return in.tc.tFalse
	case "RuntimeError":
		return nil
	}
	in.unsupported("error method %s", name)
	return nil
}

func (in *Interp) callSSA(caller *frame, fn *ssa.Function, args []Value, env []Value) Value {
	if fn.Parent() == nil {
		name := fn.String()
		if fn.Name() == "init" && fn.Synthetic != "" && caller != nil && caller.fn.Name() == "init" && caller.fn.Pkg != fn.Pkg {
			// dependency initialisers run lazily when their globals are first touched
			return nil
		}
		if r, ok := in.replaceFn[name]; ok && (caller == nil || caller.fn != r) {
			fn = r
			name = fn.String()
		}
		if strings.HasPrefix(fn.Name(), "verif_") {
			if h := harnessIntrinsics[fn.Name()]; h != nil {
				return h(in, caller, args)
			}
		}
		if ext := intrinsics[name]; ext != nil {
			return ext(in, caller, args)
		}
		if ext := in.patternIntrinsic(fn, name); ext != nil {
			return ext(in, caller, args)
		}
		if fn.Blocks == nil {
			in.unsupported("no code for function: %s", name)
		}
	}
	if fn.TypeParams().Len() > 0 && len(fn.TypeArgs()) == 0 {
		in.unsupported("uninstantiated generic %s", fn)
	}
	if !in.funcsSeen[fn] {
		in.funcsSeen[fn] = true
	}
	var th *Thread
	if caller != nil {
		th = caller.thread
	} else {
		th = in.cur
	}
	fr := &frame{in: in, caller: caller, fn: fn, thread: th}
	depth := 0
	for c := caller; c != nil; c = c.caller {
		depth++
		if depth > 400 {
			panic(pathEnd{"budget", "call depth exceeded in " + fn.String()})
		}
	}
	fr.env = make(map[ssa.Value]Value, 16)
	fr.block = fn.Blocks[0]
	fr.locals = make([]Value, len(fn.Locals))
	for i, l := range fn.Locals {
		fr.locals[i] = in.zero(mustDeref(l.Type()))
		fr.env[l] = &fr.locals[i]
	}
	for i, p := range fn.Params {
		fr.env[p] = args[i]
	}
	for i, fv := range fn.FreeVars {
		fr.env[fv] = env[i]
	}
	for fr.block != nil {
		in.runFrame(fr)
	}
	return fr.result
}

func (in *Interp) runFrame(fr *frame) {
	defer func() {
		if fr.block == nil {
			return // normal return
		}
		r := recover()
		if pe, ok := r.(pathEnd); ok {
			if pe.kind == "unsupported" && !strings.Contains(pe.msg, " [in ") {
				where := fr.fn.String()
				for c, n := fr.caller, 0; c != nil && n < 3; c, n = c.caller, n+1 {
					where += " <- " + c.fn.String()
				}
				pe.msg += " [in " + where + "]"
			}
			panic(pe) // engine-level termination: do not run defers
		}
		if _, ok := r.(targetPanic); !ok {
			// internal engine error: convert into unsupported with context
			panic(pathEnd{"unsupported", fmt.Sprintf("engine panic in %s: %v", fr.fn, r)})
		}
		fr.panicking = true
		fr.panic = r
		in.runDefers(fr)
		fr.block = fr.fn.Recover
	}()
	for {
		nonPhis := in.executePhis(fr)
		for _, instr := range nonPhis {
			in.run.steps++
			if in.run.steps > in.cfg.StepBudget {
				panic(pathEnd{"budget", "step budget exceeded"})
			}
			if in.visitInstr(fr, instr) == kReturn {
				return
			}
		}
	}
}

func (in *Interp) executePhis(fr *frame) []ssa.Instruction {
	if fr.skipPhis {
		fr.skipPhis = false
		for i, instr := range fr.block.Instrs {
			if _, ok := instr.(*ssa.Phi); !ok {
				return fr.block.Instrs[i:]
			}
		}
	}
	firstNonPhi := -1
	for i, instr := range fr.block.Instrs {
		if _, ok := instr.(*ssa.Phi); !ok {
			firstNonPhi = i
			break
		}
	}
	nonPhis := fr.block.Instrs[firstNonPhi:]
	if firstNonPhi > 0 {
		phis := fr.block.Instrs[:firstNonPhi]
		predIndex := slices.Index(fr.block.Preds, fr.prevBlock)
		fr.phitemps = fr.phitemps[:0]
		for _, phi := range phis {
			phi := phi.(*ssa.Phi)
			fr.phitemps = append(fr.phitemps, fr.get(phi.Edges[predIndex]))
		}
		for i, phi := range phis {
			fr.env[phi.(*ssa.Phi)] = fr.phitemps[i]
		}
	}
	return nonPhis
}

func (in *Interp) runDefer(fr *frame, d *deferred) {
	var ok bool
	defer func() {
		if !ok {
			r := recover()
			if pe, isPE := r.(pathEnd); isPE {
				panic(pe)
			}
			fr.panicking = true
			fr.panic = r
		}
	}()
	in.call(fr, d.instr.Pos(), d.fn, d.args)
	ok = true
}

func (in *Interp) runDefers(fr *frame) {
	for d := fr.defers; d != nil; d = d.tail {
		in.runDefer(fr, d)
	}
	fr.defers = nil
	if fr.panicking {
		panic(fr.panic)
	}
}

func (in *Interp) doRecover(caller *frame) Value {
	if caller != nil && !caller.panicking && caller.caller != nil && caller.caller.panicking {
		caller.caller.panicking = false
		p := caller.caller.panic
		caller.caller.panic = nil
		switch p := p.(type) {
		case targetPanic:
			return p.v
		default:
			return Iface{t: in.runtimeErrType(), v: in.mkStr(fmt.Sprint(p))}
		}
	}
	return Iface{}
}

type continuation int

const (
	kNext continuation = iota
	kReturn
	kJump
)

func (in *Interp) visitInstr(fr *frame, instr ssa.Instruction) continuation {
	switch instr := instr.(type) {
	case *ssa.DebugRef:
	case *ssa.UnOp:
		fr.env[instr] = in.unop(fr, instr, fr.get(instr.X))
	case *ssa.BinOp:
		fr.env[instr] = in.binop(instr.Op, instr.X.Type(), fr.get(instr.X), fr.get(instr.Y), instr)
	case *ssa.Call:
		fn, args := in.prepareCall(fr, &instr.Call)
		fr.env[instr] = in.call(fr, instr.Pos(), fn, args)
	case *ssa.ChangeInterface:
		fr.env[instr] = fr.get(instr.X)
	case *ssa.ChangeType:
		fr.env[instr] = fr.get(instr.X)
	case *ssa.Convert:
		fr.env[instr] = in.conv(instr.Type(), instr.X.Type(), fr.get(instr.X))
	case *ssa.SliceToArrayPointer:
		fr.env[instr] = in.sliceToArrayPointer(instr.Type(), fr.get(instr.X))
	case *ssa.MakeInterface:
		fr.env[instr] = Iface{t: instr.X.Type(), v: fr.get(instr.X)}
	case *ssa.Extract:
		fr.env[instr] = fr.get(instr.Tuple).(Tuple)[instr.Index]
	case *ssa.Slice:
		fr.env[instr] = in.slice(instr, fr.get(instr.X), fr.get(instr.Low), fr.get(instr.High), fr.get(instr.Max))
	case *ssa.Return:
		switch len(instr.Results) {
		case 0:
		case 1:
			fr.result = fr.get(instr.Results[0])
		default:
			res := make(Tuple, 0, len(instr.Results))
			for _, r := range instr.Results {
				res = append(res, fr.get(r))
			}
			fr.result = res
		}
		fr.block = nil
		return kReturn
	case *ssa.RunDefers:
		in.runDefers(fr)
	case *ssa.Panic:
		panic(targetPanic{fr.get(instr.X)})
	case *ssa.Send:
		in.chanSend(fr.get(instr.Chan).(*ChanV), fr.get(instr.X))
	case *ssa.Store:
		in.store(fr.get(instr.Addr), fr.get(instr.Val))
	case *ssa.If:
		cond := fr.get(instr.Cond).(*Term)
		if !cond.IsConst() && in.spec == 0 && in.tryMerge(fr, instr, cond) {
			return kJump
		}
		succ := 1
		if in.branchAt(fr, instr, cond) {
			succ = 0
		}
		fr.prevBlock, fr.block = fr.block, fr.block.Succs[succ]
		return kJump
	case *ssa.Jump:
		fr.prevBlock, fr.block = fr.block, fr.block.Succs[0]
		return kJump
	case *ssa.Defer:
		fn, args := in.prepareCall(fr, &instr.Call)
		defers := &fr.defers
		if instr.DeferStack != nil {
			in.unsupported("defer stack (range-over-func)")
		}
		*defers = &deferred{fn: fn, args: args, instr: instr, tail: *defers}
	case *ssa.Go:
		fn, args := in.prepareCall(fr, &instr.Call)
		in.spawn(fn, args, instr.Pos())
	case *ssa.MakeChan:
		n := in.concInt(fr.get(instr.Size).(*Term), "chan size")
		in.chanID++
		fr.env[instr] = &ChanV{cap: int(n), id: in.chanID}
	case *ssa.Alloc:
		var addr *Value
		if instr.Heap {
			addr = new(Value)
			fr.env[instr] = addr
		} else {
			addr = fr.env[instr].(*Value)
		}
		*addr = in.zero(mustDeref(instr.Type()))
	case *ssa.MakeSlice:
		fr.env[instr] = in.makeSlice(instr, fr.get(instr.Len).(*Term), fr.get(instr.Cap).(*Term))
	case *ssa.MakeMap:
		fr.env[instr] = &MapV{index: map[string]int{}, kt: instr.Type().Underlying().(*types.Map).Key()}
	case *ssa.Range:
		fr.env[instr] = in.rangeIter(fr.get(instr.X))
	case *ssa.Next:
		fr.env[instr] = in.iterNext(fr.get(instr.Iter), instr)
	case *ssa.FieldAddr:
		x := fr.get(instr.X)
		switch p := x.(type) {
		case *Value:
			if p == nil {
				in.goPanic("invalid memory address or nil pointer dereference")
			}
			fr.env[instr] = &(*p).(Struct)[instr.Field]
		case *SymPtr:
			np := &SymPtr{cells: p.cells, idx: p.idx, field: append(append([]int{}, p.field...), instr.Field)}
			fr.env[instr] = np
		default:
			in.unsupported("FieldAddr on %T", x)
		}
	case *ssa.Field:
		fr.env[instr] = fr.get(instr.X).(Struct)[instr.Field]
	case *ssa.IndexAddr:
		fr.env[instr] = in.indexAddr(fr.get(instr.X), fr.get(instr.Index).(*Term), instr)
	case *ssa.Index:
		fr.env[instr] = in.index(fr.get(instr.X), fr.get(instr.Index).(*Term), instr)
	case *ssa.Lookup:
		fr.env[instr] = in.lookup(instr, fr.get(instr.X), fr.get(instr.Index))
	case *ssa.MapUpdate:
		m, _ := fr.get(instr.Map).(*MapV)
		if m == nil {
			in.goPanic("assignment to entry in nil map")
		}
		in.mapUpdate(m, fr.get(instr.Key), fr.get(instr.Value))
	case *ssa.TypeAssert:
		fr.env[instr] = in.typeAssert(instr, fr.get(instr.X))
	case *ssa.MakeClosure:
		var bindings []Value
		for _, b := range instr.Bindings {
			bindings = append(bindings, fr.get(b))
		}
		fr.env[instr] = &Closure{instr.Fn.(*ssa.Function), bindings}
	case *ssa.Select:
		fr.env[instr] = in.doSelect(fr, instr)
	default:
		in.unsupported("unexpected instruction: %T", instr)
	}
	return kNext
}

func (in *Interp) posStr(p token.Pos) string {
	if p == token.NoPos {
		return ""
	}
	ps := in.prog.Fset.Position(p)
	return fmt.Sprintf("%s:%d", ps.Filename, ps.Line)
}

// ---------- memory ----------

func (in *Interp) load(addr Value) Value {
	switch p := addr.(type) {
	case *Value:
		if p == nil {
			in.goPanic("invalid memory address or nil pointer dereference")
		}
		in.checkGuard(p)
		return copyVal(*p)
	case *SymPtr:
		return in.symLoad(p)
	}
	in.unsupported("load through %T", addr)
	return nil
}

func (in *Interp) store(addr Value, v Value) {
	switch p := addr.(type) {
	case *Value:
		if p == nil {
			in.goPanic("invalid memory address or nil pointer dereference")
		}
		in.checkGuard(p)
		*p = copyVal(v)
		return
	case *SymPtr:
		in.symStore(p, v)
		return
	}
	in.unsupported("store through %T", addr)
}

func cellAt(cell *Value, path []int) *Value {
	p := cell
	for _, f := range path {
		p = &(*p).(Struct)[f]
	}
	return p
}

func (in *Interp) symLoad(p *SymPtr) Value {
	// ite chain over cells
	var res Value
	for i := len(p.cells) - 1; i >= 0; i-- {
		v := *cellAt(&p.cells[i], p.field)
		if res == nil {
			res = copyVal(v)
			continue
		}
		c := in.tc.Eq(p.idx, in.tc.BV(64, uint64(i)))
		res = in.iteVal(c, v, res)
	}
	return res
}

func (in *Interp) symStore(p *SymPtr, v Value) {
	for i := range p.cells {
		c := in.tc.Eq(p.idx, in.tc.BV(64, uint64(i)))
		slot := cellAt(&p.cells[i], p.field)
		*slot = in.iteVal(c, v, *slot)
	}
}

// iteVal builds ite(c, a, b) over values of identical shape.
func (in *Interp) iteVal(c *Term, a, b Value) Value {
	if c.IsTrue() {
		return copyVal(a)
	}
	if c.IsFalse() {
		return copyVal(b)
	}
	switch a := a.(type) {
	case *Term:
		return in.tc.Ite(c, a, b.(*Term))
	case Struct:
		bs := b.(Struct)
		r := make(Struct, len(a))
		for i := range a {
			r[i] = in.iteVal(c, a[i], bs[i])
		}
		return r
	case Array:
		bs := b.(Array)
		r := make(Array, len(a))
		for i := range a {
			r[i] = in.iteVal(c, a[i], bs[i])
		}
		return r
	case *StrV:
		bs := b.(*StrV)
		if a.op == nil && bs.op == nil && len(a.b) == len(bs.b) {
			r := make([]*Term, len(a.b))
			for i := range r {
				r[i] = in.tc.Ite(c, a.b[i], bs.b[i])
			}
			return &StrV{b: r}
		}
	}
	if in.eqConcrete(a, b) {
		return a
	}
	// shapes differ: decide the condition instead
	if in.branch(c) {
		return copyVal(a)
	}
	return copyVal(b)
}

func (in *Interp) eqConcrete(a, b Value) bool {
	defer func() { recover() }()
	switch a.(type) {
	case *Value, *MapV, *ChanV, *ssa.Function, *Closure, *Native:
		return a == b
	}
	return false
}
