package main

import (
	"go/types"
)

// yaml.Marshal / yaml.Unmarshal (and json) as box / unbox: Marshal returns an
// opaque byte slice holding a deep copy of the value, Unmarshal stores a deep
// copy of the boxed value into the destination. This is the documented
// contract "a faithful round trip"; the serialised text itself is not modelled.

type boxObj struct {
	v Value
	t types.Type
}

func (in *Interp) deepCopy(v Value, seen map[*Value]*Value) Value {
	switch x := v.(type) {
	case Struct:
		n := make(Struct, len(x))
		for i, f := range x {
			n[i] = in.deepCopy(f, seen)
		}
		return n
	case Array:
		n := make(Array, len(x))
		for i, f := range x {
			n[i] = in.deepCopy(f, seen)
		}
		return n
	case SliceV:
		if x.nil {
			return x
		}
		a := make([]Value, x.n)
		for i := 0; i < x.n; i++ {
			a[i] = in.deepCopy(x.a[x.off+i], seen)
		}
		return SliceV{a: a, n: x.n, c: x.n}
	case *Value:
		if x == nil {
			return x
		}
		if p, ok := seen[x]; ok {
			return p
		}
		np := new(Value)
		seen[x] = np
		*np = in.deepCopy(*x, seen)
		return np
	case *MapV:
		if x == nil {
			return x
		}
		m := &MapV{index: map[string]int{}, kt: x.kt}
		for _, e := range x.ents {
			in.mapUpdate(m, in.deepCopy(e.k, seen), in.deepCopy(e.v, seen))
		}
		return m
	case Iface:
		if x.t == nil {
			return x
		}
		return Iface{t: x.t, v: in.deepCopy(x.v, seen)}
	}
	return v
}

func init() {
	marshal := func(in *Interp, fr *frame, a []Value) Value {
		src := a[0].(Iface)
		box := &Native{kind: "box", v: &boxObj{v: in.deepCopy(src.v, map[*Value]*Value{}), t: src.t}}
		return Tuple{SliceV{a: []Value{box}, n: 1, c: 1}, Iface{}}
	}
	unmarshal := func(in *Interp, fr *frame, a []Value) Value {
		data := a[0].(SliceV)
		if data.n != 1 {
			return in.newError("unmarshal: not a boxed value (truncated or foreign data)")
		}
		box, ok := data.a[data.off].(*Native)
		if !ok || box.kind != "box" {
			return in.newError("unmarshal: not a boxed value")
		}
		b := box.v.(*boxObj)
		dst := a[1].(Iface)
		dp, ok := dst.v.(*Value)
		if !ok || dp == nil {
			return in.newError("unmarshal: destination is not a pointer")
		}
		cp := in.deepCopy(b.v, map[*Value]*Value{})
		// boxed value is a pointer to T (Marshal(c) with c *T) or a T
		if sp, isPtr := cp.(*Value); isPtr && sp != nil {
			if types.Identical(b.t, dst.t) {
				*dp = *sp
				return Iface{}
			}
		}
		if pt, isPtr := dst.t.Underlying().(*types.Pointer); isPtr && types.Identical(pt.Elem(), b.t) {
			*dp = cp
			return Iface{}
		}
		return in.newError("unmarshal: type mismatch between boxed value and destination")
	}
	intrinsics["gopkg.in/yaml.v3.Marshal"] = marshal
	intrinsics["gopkg.in/yaml.v3.Unmarshal"] = unmarshal
	intrinsics["encoding/json.Marshal"] = marshal
	intrinsics["encoding/json.MarshalIndent"] = marshal
	intrinsics["encoding/json.Unmarshal"] = unmarshal

	// verif_strings_of(v): every string reachable inside v (for "no secret anywhere in the output")
	harnessIntrinsics["verif_strings_of"] = func(in *Interp, fr *frame, a []Value) Value {
		var out []Value
		seen := map[*Value]bool{}
		var walk func(v Value)
		walk = func(v Value) {
			switch x := v.(type) {
			case *StrV:
				out = append(out, x)
			case Struct:
				for _, f := range x {
					walk(f)
				}
			case Array:
				for _, f := range x {
					walk(f)
				}
			case SliceV:
				for i := 0; i < x.n; i++ {
					walk(x.a[x.off+i])
				}
			case *Value:
				if x != nil && !seen[x] {
					seen[x] = true
					walk(*x)
				}
			case Iface:
				if x.t != nil {
					walk(x.v)
				}
			case *MapV:
				if x != nil {
					for _, e := range x.ents {
						walk(e.k)
						walk(e.v)
					}
				}
			}
		}
		walk(a[0])
		return SliceV{a: out, n: len(out), c: len(out)}
	}
}
