package agent

// Native demonstration of the recorded C28 finding against the real build.

import (
	"testing"
	"time"

	"github.com/postalsys/muti-metroo/internal/config"
	"github.com/postalsys/muti-metroo/internal/crypto"
	"github.com/postalsys/muti-metroo/internal/flood"
	"github.com/postalsys/muti-metroo/internal/identity"
	"github.com/postalsys/muti-metroo/internal/logging"
	"github.com/postalsys/muti-metroo/internal/protocol"
	"github.com/postalsys/muti-metroo/internal/routing"
	"github.com/postalsys/muti-metroo/internal/sleep"
	"github.com/postalsys/muti-metroo/internal/stream"
)

type demoSender struct{}

func (demoSender) SendToPeer(identity.AgentID, *protocol.Frame) error { return nil }
func (demoSender) GetPeerIDs() []identity.AgentID                     { return nil }

// An unsigned sleep command inside a QUEUED_STATE frame puts a signed-mode agent to sleep.
func TestVerifDemo_C28_QueuedState(t *testing.T) {
	kp, err := crypto.GenerateSigningKeypair()
	if err != nil {
		t.Fatal(err)
	}
	var id identity.AgentID
	id[0] = 9
	a := &Agent{id: id, logger: logging.NopLogger()}
	a.routeMgr = routing.NewManager(id)
	fcfg := flood.DefaultFloodConfig()
	pub := kp.PublicKey
	fcfg.SigningPublicKey = &pub
	a.flooder = flood.NewFlooder(fcfg, id, a.routeMgr, demoSender{})
	defer a.flooder.Stop()
	a.sleepMgr = sleep.NewManager(config.SleepConfig{Enabled: true, PollInterval: time.Hour, PollDuration: time.Second, MaxQueuedMessages: 10}, t.TempDir(), logging.NopLogger())
	var peer identity.AgentID
	peer[0] = 1
	unsigned := &protocol.SleepCommand{OriginAgent: peer, CommandID: 1, Timestamp: uint64(time.Now().Unix())}
	// the direct frame is rejected
	a.handleSleepCommand(peer, &protocol.Frame{Type: protocol.FrameSleepCommand, Payload: unsigned.Encode()})
	if a.sleepMgr.IsSleeping() {
		t.Fatal("unsigned SLEEP_COMMAND frame was accepted")
	}
	// the same command inside queued state is not verified
	unsigned.CommandID = 2
	a.handleQueuedState(peer, &protocol.Frame{Type: protocol.FrameQueuedState, Payload: (&protocol.QueuedState{SleepCmd: unsigned}).Encode()})
	if a.sleepMgr.IsSleeping() {
		t.Log("VERIF-DEMO-REPRODUCED: unsigned sleep command in QUEUED_STATE put the signed-mode agent to sleep")
	}
	a.sleepMgr.Stop()
}

// A UDP_CLOSE / ICMP_CLOSE that arrives from a peer other than the next hop of the agent's own
// association, with the same per-connection stream id, tears the agent's own tunnel down.
func TestVerifDemo_C16_CloseFromOtherPeer(t *testing.T) {
	var id, next, other identity.AgentID
	id[0], next[0], other[0] = 9, 1, 2
	a := &Agent{id: id, logger: logging.NopLogger(), tcpRelay: newRelayTable(), udpRelay: newRelayTable(), icmpRelay: newRelayTable()}
	dest := &udpDestAssociation{StreamID: 1, NextHop: next, OriginKey: "o", PendingOpen: make(chan struct{})}
	ing := &udpIngressAssociation{destAssocs: map[string]*udpDestAssociation{"o": dest}}
	a.udpIngressByLocalStream = map[uint64]*udpDestLookup{1: {Ingress: ing, Dest: dest}}
	a.handleUDPClose(other, &protocol.Frame{Type: protocol.FrameUDPClose, StreamID: 1})
	if a.udpIngressByLocalStream[1] == nil || ing.destAssocs["o"] == nil {
		t.Log("VERIF-DEMO-REPRODUCED: UDP_CLOSE from another peer removed the agent's own UDP association")
	}
	sess := &icmpIngressAssociation{StreamID: 1, NextHop: next, PendingOpen: make(chan struct{})}
	a.icmpIngressByStream = map[uint64]*icmpIngressAssociation{1: sess}
	a.icmpWSSessionByStream = map[uint64]*icmpWebSocketSession{}
	a.handleICMPClose(other, &protocol.Frame{Type: protocol.FrameICMPClose, StreamID: 1})
	if a.icmpIngressByStream[1] == nil {
		t.Log("VERIF-DEMO-REPRODUCED: ICMP_CLOSE from another peer removed the agent's own ICMP session")
	}
}

// A STREAM_CLOSE from a neighbour other than the next hop of a stream the agent opened itself,
// with the same per-connection stream id (e.g. the crossing close of a relayed stream whose
// entry is already gone), ends the agent's own stream.
func TestVerifDemo_C16_OwnStreamClosedByOtherPeer(t *testing.T) {
	var id, next, other identity.AgentID
	id[0], next[0], other[0] = 9, 1, 2
	a := &Agent{id: id, logger: logging.NopLogger(), tcpRelay: newRelayTable(), udpRelay: newRelayTable(), icmpRelay: newRelayTable(),
		streamMgr: stream.NewManager(stream.DefaultManagerConfig(), id)}
	s, err := a.streamMgr.AcceptStream(1, 1, next, "h", 80)
	if err != nil {
		t.Fatal(err)
	}
	a.handleStreamClose(other, &protocol.Frame{Type: protocol.FrameStreamClose, StreamID: 1})
	if a.streamMgr.GetStream(1) != s {
		t.Log("VERIF-DEMO-REPRODUCED: STREAM_CLOSE from another peer ended the agent's own stream")
	}
}
