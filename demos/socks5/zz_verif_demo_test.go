package socks5

// Native demonstration of the recorded C22 finding against the real build:
// real UDP sockets on loopback, the stranger sends from 127.0.0.2.

import (
	"context"
	"net"
	"sync"
	"testing"
	"time"
)

type demoTCPConn struct{ net.Conn }

func (demoTCPConn) RemoteAddr() net.Addr { return &net.TCPAddr{IP: net.IPv4(127, 0, 0, 1), Port: 40000} }
func (demoTCPConn) Close() error         { return nil }

type demoUDPHandler struct {
	mu      sync.Mutex
	relayed int
}

func (h *demoUDPHandler) CreateUDPAssociation(ctx context.Context, clientAddr *net.UDPAddr) (uint64, error) {
	return 7, nil
}
func (h *demoUDPHandler) SetSOCKS5UDPAssociation(streamID uint64, assoc *UDPAssociation) {}
func (h *demoUDPHandler) RelayUDPDatagram(streamID uint64, destAddr net.Addr, destPort uint16, addrType byte, rawAddr []byte, data []byte) error {
	h.mu.Lock()
	h.relayed++
	h.mu.Unlock()
	return nil
}
func (h *demoUDPHandler) CloseUDPAssociation(streamID uint64) {}
func (h *demoUDPHandler) IsUDPEnabled() bool                  { return true }

func TestVerifDemo_C22_Stranger(t *testing.T) {
	h := &demoUDPHandler{}
	// the owner of the association is the TCP peer 127.0.0.1; it announced no UDP address
	a, err := NewUDPAssociation(demoTCPConn{}, h, net.IPv4(127, 0, 0, 1))
	if err != nil {
		t.Skip("cannot open UDP socket: ", err)
	}
	a.SetStreamID(7)
	go a.ReadLoop()
	defer a.Close()
	stranger, err := net.DialUDP("udp4", &net.UDPAddr{IP: net.IPv4(127, 0, 0, 2)}, a.LocalAddr())
	if err != nil {
		t.Skip("cannot bind 127.0.0.2: ", err)
	}
	defer stranger.Close()
	stranger.Write([]byte{0, 0, 0, AddrTypeIPv4, 8, 8, 8, 8, 0, 53, 1})
	for i := 0; i < 100; i++ {
		h.mu.Lock()
		n := h.relayed
		h.mu.Unlock()
		if n > 0 {
			t.Log("VERIF-DEMO-REPRODUCED: datagram from 127.0.0.2 relayed for an association owned by 127.0.0.1")
			return
		}
		time.Sleep(10 * time.Millisecond)
	}
}
