package filetransfer

import (
	"archive/tar"
	"bytes"
	"compress/gzip"
	"os"
	"path/filepath"
	"testing"
)

// C27 demonstration: an archive of two links that each pass the lexical checks
// and one file written through them ends up outside the destination.
func TestVerifDemo_C27(t *testing.T) {
	root := t.TempDir()
	dest := filepath.Join(root, "d")
	var buf bytes.Buffer
	gz := gzip.NewWriter(&buf)
	tw := tar.NewWriter(gz)
	tw.WriteHeader(&tar.Header{Typeflag: tar.TypeSymlink, Name: "x", Linkname: "."})
	tw.WriteHeader(&tar.Header{Typeflag: tar.TypeSymlink, Name: "x/y", Linkname: ".."})
	tw.WriteHeader(&tar.Header{Typeflag: tar.TypeReg, Name: "y/escaped", Mode: 0o644, Size: 1})
	tw.Write([]byte("X"))
	tw.Close()
	gz.Close()
	err := UntarDirectory(&buf, dest)
	if _, serr := os.Lstat(filepath.Join(root, "escaped")); serr == nil {
		t.Logf("VERIF-DEMO-REPRODUCED C27: %s created outside %s (err=%v)", filepath.Join(root, "escaped"), dest, err)
		t.Fail()
	}
}
