package filetransfer

import (
	"archive/tar"
	"bytes"
	"compress/gzip"
	"os"
	"path/filepath"
	"testing"
)

// C27 demonstration: an archive of two links that each pass the lexical checks
// and one file written through them ends up outside the destination.
func TestVerifDemo_C27(t *testing.T) {
	root := t.TempDir()
	dest := filepath.Join(root, "d")
	var buf bytes.Buffer
	gz := gzip.NewWriter(&buf)
	tw := tar.NewWriter(gz)
	tw.WriteHeader(&tar.Header{Typeflag: tar.TypeSymlink, Name: "x", Linkname: "."})
	tw.WriteHeader(&tar.Header{Typeflag: tar.TypeSymlink, Name: "x/y", Linkname: ".."})
	tw.WriteHeader(&tar.Header{Typeflag: tar.TypeReg, Name: "y/escaped", Mode: 0o644, Size: 1})
	tw.Write([]byte("X"))
	tw.Close()
	gz.Close()
	err := UntarDirectory(&buf, dest)
	if _, serr := os.Lstat(filepath.Join(root, "escaped")); serr == nil {
		t.Logf("VERIF-DEMO-REPRODUCED C27: %s created outside %s (err=%v)", filepath.Join(root, "escaped"), dest, err)
		t.Fail()
	}
}

// C26 demonstration: a symbolic link in a parent directory of the requested
// path leads upload, listing and delete outside the allowed directory.
func TestVerifDemo_C26(t *testing.T) {
	root := t.TempDir()
	allowed := filepath.Join(root, "a")
	outside := filepath.Join(root, "o")
	os.MkdirAll(allowed, 0o755)
	os.MkdirAll(outside, 0o755)
	os.WriteFile(filepath.Join(outside, "s"), []byte("secret"), 0o644)
	os.Symlink(outside, filepath.Join(allowed, "l"))
	h := NewStreamHandler(StreamConfig{Enabled: true, AllowedPaths: []string{allowed}})
	bad := 0
	up := filepath.Join(allowed, "l", "new")
	if h.ValidateUploadMetadata(&TransferMetadata{Path: up, Size: 1}) == nil {
		h.WriteUploadedFile(up, bytes.NewReader([]byte("X")), 0o644, false, false)
		if _, err := os.Lstat(filepath.Join(outside, "new")); err == nil {
			t.Logf("upload to %s created %s", up, filepath.Join(outside, "new"))
			bad++
		}
	}
	if resp := h.Browse(&BrowseRequest{Action: "list", Path: filepath.Join(allowed, "l")}); resp.Error == "" {
		t.Logf("list of %s returned %d entries of %s", filepath.Join(allowed, "l"), len(resp.Entries), outside)
		bad++
	}
	h.Browse(&BrowseRequest{Action: "delete", Path: filepath.Join(allowed, "l", "s")})
	if _, err := os.Lstat(filepath.Join(outside, "s")); err != nil {
		t.Logf("delete of %s removed %s", filepath.Join(allowed, "l", "s"), filepath.Join(outside, "s"))
		bad++
	}
	if bad > 0 {
		t.Logf("VERIF-DEMO-REPRODUCED C26: %d operations left the allowed directory", bad)
		t.Fail()
	}
}
