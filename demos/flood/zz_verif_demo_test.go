package flood

// Native demonstrations of recorded findings against the real build (real
// Ed25519, real clock). Run by bin/check through go test -overlay when the
// engine reproduces the corresponding violation.

import (
	"testing"
	"time"

	"github.com/postalsys/muti-metroo/internal/crypto"
	"github.com/postalsys/muti-metroo/internal/identity"
	"github.com/postalsys/muti-metroo/internal/protocol"
	"github.com/postalsys/muti-metroo/internal/routing"
)

type demoSender struct{ peers []identity.AgentID }

func (s *demoSender) SendToPeer(identity.AgentID, *protocol.Frame) error { return nil }
func (s *demoSender) GetPeerIDs() []identity.AgentID                     { return s.peers }

func demoID(b byte) identity.AgentID { var id identity.AgentID; id[0] = b; return id }

func demoSignedFlooder(t *testing.T, maxCache int) (*Flooder, *crypto.SigningKeypair) {
	kp, err := crypto.GenerateSigningKeypair()
	if err != nil {
		t.Fatal(err)
	}
	cfg := DefaultFloodConfig()
	pub := kp.PublicKey
	cfg.SigningPublicKey = &pub
	if maxCache > 0 {
		cfg.MaxSeenCacheSize = maxCache
	}
	f := NewFlooder(cfg, demoID(9), routing.NewManager(demoID(9)), &demoSender{peers: []identity.AgentID{demoID(1), demoID(2)}})
	t.Cleanup(f.Stop)
	return f, kp
}

func demoSleep(kp *crypto.SigningKeypair, id uint64, ts time.Time) *protocol.SleepCommand {
	cmd := &protocol.SleepCommand{OriginAgent: demoID(3), CommandID: id, Timestamp: uint64(ts.Unix())}
	cmd.Signature = crypto.Sign(kp.PrivateKey, cmd.SignableBytes())
	return cmd
}

// C29: the cache entry (TTL 5 min from arrival) expires while a future-dated
// command is still inside its +-5 min timestamp window.
func TestVerifDemo_C29_Expiry(t *testing.T) {
	f, kp := demoSignedFlooder(t, 0)
	cmd := demoSleep(kp, 42, time.Now().Add(240*time.Second))
	if !f.HandleSleepCommand(demoID(1), cmd) {
		t.Fatal("genuine command not accepted")
	}
	// 301 s later the periodic cleanup runs (clock passed explicitly to the real function)
	f.sleepCmdMu.Lock()
	f.cleanupSleepCmdCache(time.Now().Add(301*time.Second), f.cfg.SeenCacheTTL)
	f.sleepCmdMu.Unlock()
	// the replay arrives: 61 s after the command's timestamp, i.e. inside the window
	replay := &protocol.SleepCommand{OriginAgent: cmd.OriginAgent, CommandID: cmd.CommandID, Timestamp: cmd.Timestamp, Signature: cmd.Signature}
	if f.HandleSleepCommand(demoID(2), replay) {
		t.Log("VERIF-DEMO-REPRODUCED: replayed command acted on again after its cache entry expired")
	}
}

// C29: entries are marked before verification, so unauthenticated commands
// fill the cache and the size-based eviction can drop the genuine entry.
func TestVerifDemo_C29_Eviction(t *testing.T) {
	for attempt := 0; attempt < 50; attempt++ {
		f, kp := demoSignedFlooder(t, 1)
		cmd := demoSleep(kp, 42, time.Now())
		if !f.HandleSleepCommand(demoID(1), cmd) {
			t.Fatal("genuine command not accepted")
		}
		forged := &protocol.SleepCommand{OriginAgent: demoID(4), CommandID: uint64(1000 + attempt), Timestamp: cmd.Timestamp}
		forged.Signature[0] = 1
		if f.HandleSleepCommand(demoID(2), forged) {
			t.Fatal("forged command accepted")
		}
		f.cleanup()
		replay := &protocol.SleepCommand{OriginAgent: cmd.OriginAgent, CommandID: cmd.CommandID, Timestamp: cmd.Timestamp, Signature: cmd.Signature}
		if f.HandleSleepCommand(demoID(2), replay) {
			t.Log("VERIF-DEMO-REPRODUCED: replayed command acted on again after forged traffic evicted its cache entry")
			return
		}
	}
}

// C14: a replay stamped with the relayer's higher counter masks the origin.
func TestVerifDemo_C14(t *testing.T) {
	mk := func() (*Flooder, *routing.Manager) {
		rm := routing.NewManager(demoID(9))
		f := NewFlooder(DefaultFloodConfig(), demoID(9), rm, &demoSender{peers: []identity.AgentID{demoID(1), demoID(2)}})
		t.Cleanup(f.Stop)
		return f, rm
	}
	b, o := demoID(1), demoID(2)
	route := []protocol.Route{{AddressFamily: protocol.AddrFamilyIPv4, PrefixLength: 24, Prefix: []byte{10, 0, 0, 0}, Metric: 1}}
	// relayer counter ahead of the origin's
	f, rm := mk()
	f.HandleRouteAdvertise(b, o, "", 100, route, &protocol.EncryptedData{Data: protocol.EncodePath([]identity.AgentID{b, o})}, []identity.AgentID{b})
	f.HandleRouteAdvertise(o, o, "", 5, route, &protocol.EncryptedData{Data: protocol.EncodePath([]identity.AgentID{o})}, []identity.AgentID{o})
	fresh := false
	for _, r := range rm.Table().GetAllRoutes() {
		fresh = fresh || r.Sequence == 5
	}
	if !fresh {
		t.Log("VERIF-DEMO-REPRODUCED: C14/genuine-announcement-does-not-renew-route")
	}
	// relayer counter equal to the origin's next sequence
	f2, _ := mk()
	f2.HandleRouteAdvertise(b, o, "", 7, route, &protocol.EncryptedData{Data: protocol.EncodePath([]identity.AgentID{b, o})}, []identity.AgentID{b})
	if !f2.HandleRouteAdvertise(o, o, "", 7, route, &protocol.EncryptedData{Data: protocol.EncodePath([]identity.AgentID{o})}, []identity.AgentID{o}) {
		t.Log("VERIF-DEMO-REPRODUCED: C14/genuine-announcement-ignored-after-relayed-replay")
	}
}
