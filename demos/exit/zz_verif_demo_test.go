package exit

// Native demonstration of the recorded C16 finding (exit side) against the real build.

import (
	"context"
	"io"
	"net"
	"sync"
	"testing"
	"time"

	"github.com/postalsys/muti-metroo/internal/crypto"
	"github.com/postalsys/muti-metroo/internal/identity"
)

type demoWriter struct {
	mu     sync.Mutex
	acks   map[identity.AgentID][crypto.KeySize]byte
	closes []identity.AgentID
}

func (w *demoWriter) WriteStreamData(identity.AgentID, uint64, []byte, uint8) error { return nil }
func (w *demoWriter) WriteStreamOpenAck(p identity.AgentID, sid, req uint64, ip net.IP, port uint16, k [crypto.KeySize]byte) error {
	w.mu.Lock()
	w.acks[p] = k
	w.mu.Unlock()
	return nil
}
func (w *demoWriter) WriteStreamOpenErr(identity.AgentID, uint64, uint64, uint16, string) error {
	return nil
}
func (w *demoWriter) WriteStreamClose(p identity.AgentID, sid uint64) error {
	w.mu.Lock()
	w.closes = append(w.closes, p)
	w.mu.Unlock()
	return nil
}

// Two ingress agents, each a direct neighbour of the exit, open their first tunnel: both use
// stream id 1 (per-connection allocators). The exit's connection table is keyed by the bare id.
func TestVerifDemo_C16_ExitSameStreamID(t *testing.T) {
	ln, err := net.Listen("tcp", "127.0.0.1:0")
	if err != nil {
		t.Skip(err)
	}
	defer ln.Close()
	got := make(chan []byte, 4)
	go func() {
		for {
			c, err := ln.Accept()
			if err != nil {
				return
			}
			go func(c net.Conn) {
				b, _ := io.ReadAll(c)
				got <- b
			}(c)
		}
	}()
	_, all, _ := net.ParseCIDR("127.0.0.0/8")
	w := &demoWriter{acks: map[identity.AgentID][crypto.KeySize]byte{}}
	h := NewHandler(HandlerConfig{AllowedRoutes: []*net.IPNet{all}, ConnectTimeout: time.Second}, identity.AgentID{1}, w)
	h.Start()
	// no h.Stop(): the overwritten first tunnel is never closed, so Stop would wait for its read loop forever
	port := uint16(ln.Addr().(*net.TCPAddr).Port)
	open := func(p identity.AgentID, req uint64) *crypto.SessionKey {
		priv, pub, _ := crypto.GenerateEphemeralKeypair()
		h.HandleStreamOpen(context.Background(), 1, req, p, "127.0.0.1", port, pub)
		var rpub [crypto.KeySize]byte
		for i := 0; i < 200; i++ {
			w.mu.Lock()
			k, ok := w.acks[p]
			w.mu.Unlock()
			if ok {
				rpub = k
				break
			}
			time.Sleep(10 * time.Millisecond)
		}
		secret, err := crypto.ComputeECDH(priv, rpub)
		if err != nil {
			t.Fatal(err)
		}
		return crypto.DeriveSessionKey(secret, req, pub, rpub, true)
	}
	p1, p2 := identity.AgentID{2}, identity.AgentID{3}
	k1 := open(p1, 11)
	_ = open(p2, 12)
	ct, _ := k1.Encrypt([]byte("from-ingress-1"))
	errData := h.HandleStreamData(p1, 1, ct, 0)
	time.Sleep(100 * time.Millisecond)
	w.mu.Lock()
	closes := len(w.closes)
	w.mu.Unlock()
	if errData != nil && closes > 0 {
		t.Logf("VERIF-DEMO-REPRODUCED: data of ingress 1 (stream id 1) was matched to the tunnel of ingress 2 (also stream id 1): %v; that tunnel was closed", errData)
	}
}
