package udp

import (
	"bytes"
	"testing"

	"github.com/postalsys/muti-metroo/internal/crypto"
	"github.com/postalsys/muti-metroo/internal/identity"
)

// C04 demonstration: the exit's readLoop calls Encrypt after ReadFromUDP without
// holding anything that excludes Close; once Close has cleared the key, Encrypt
// hands the datagram back unchanged and it is relayed in clear.
func TestVerifDemo_C04(t *testing.T) {
	a := NewAssociation(5, 7, identity.AgentID{2})
	var secret, ip, rp [crypto.KeySize]byte
	secret[0] = 1
	a.SetSessionKey(crypto.DeriveSessionKey(secret, 7, ip, rp, false))
	payload := []byte("application datagram")
	a.Close() // idle timeout / UDP_CLOSE / peer loss, between the socket read and Encrypt
	out, err := a.Encrypt(payload)
	if err == nil && bytes.Equal(out, payload) {
		t.Logf("VERIF-DEMO-REPRODUCED C04: Encrypt on a closed association returned the plaintext unchanged (err=nil)")
		t.Fail()
	}
}
